import json, os
from .manifest_data import CHECKS, NOT_APPLICABLE, PENDING, ALL
ROOT = os.path.dirname(os.path.dirname(os.path.abspath(__file__)))
LEVELS = {}

def main():
    checks = []
    for pid in ALL:
        if pid not in CHECKS:
            continue
        c = CHECKS[pid]
        checks.append({
            "property_id": pid,
            "quick_cmd": "./check %s --tier quick" % pid,
            "thorough_cmd": "./check %s --tier thorough" % pid,
            "evidence_file": "/verif/evidence/%s.json" % pid,
            "replay_cmd_template": "./check %s --replay {path}" % pid,
            "engine": c["engine"],
            "level_claimed": {"category": c.get("level", "model_checking"), "text": c["text"], "design_ref": c["design_ref"]},
            "level_note": c["note"],
            "technique": c["technique"],
        })
    na = []
    for pid in ALL:
        if pid in CHECKS:
            continue
        na.append({"property_id": pid, "reason": NOT_APPLICABLE.get(pid, PENDING)})
    m = {
        "version": 1,
        "setup_cmd": "(cd harness && CARGO_NET_OFFLINE=true cargo build --offline --profile verif --bins) && (cd harness_nolog && CARGO_NET_OFFLINE=true cargo build --offline --profile verif)",
        "hooks": {
            "guard": "momtrop_verif",
            "enable": "no source hooks: the harness observes through public API only (serde of SampleGenerator, Metadata, momtrop's own `log` feature, a user-supplied MomTropFloat tracking scalar, catch_unwind); the guard name is reserved and unused",
            "baseline_off_cmd": "cd /repo && cargo test --workspace --no-fail-fast --offline",
            "source_commits": [],
            "add_only": True,
        },
        "engines": [
            {"name": "tlc+replay", "path": "spec/ , bin/tlcw, harness/", "serves_properties": [p for p in ALL if p in CHECKS],
             "kind_free_text": "explicit TLA+ specification checked by TLC; bound to the code by replaying TLC-generated behaviours into the real API and by validating recorded implementation traces against trace specifications"},
        ],
        "checks": checks,
        "not_applicable": na,
        "notes": "Driver: ./check <ID> [--tier quick|thorough] [--replay FILE]; exit 0 held / 1 VIOLATION / 2 tool failure. See DESIGN.md.",
    }
    with open(os.path.join(ROOT, "MANIFEST.json"), "w") as f:
        json.dump(m, f, indent=1)
        f.write("\n")

if __name__ == "__main__":
    main()
