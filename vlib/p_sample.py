"""C02, C06-C11: TLC checks of the sector / Symanzik / tropical-bound specifications; Gen_Routing behaviours
(graph + kinematics + several routings + U and F as monomial lists + exact table) replayed into the real
sampler in every sector."""
import json, os, random, time
from . import core, p_flow

MC = {
    "C02": ("MC_TropBound", ["InvU", "InvV", "InvB"], ["PickGraph", "PickKin", "PickSector"]),
    "C07": ("MC_TropBound", ["InvU", "InvV"], ["PickGraph", "PickKin", "PickSector"]),
    "C08": ("MC_Symanzik", ["InvBasis", "InvL", "InvU", "InvPos"], ["PickGraph", "PickBasis", "PickNumbers"]),
    "C09": ("MC_Symanzik", ["InvBasis", "InvF", "InvU"], ["PickGraph", "PickBasis", "PickNumbers"]),
    "C10": ("MC_Symanzik", ["InvBasis", "InvSq", "InvShift", "InvPos"], ["PickGraph", "PickBasis", "PickNumbers"]),
}


def mc_for(prop, tier, wd):
    """returns list of TlcResult-like summaries"""
    out = []
    if prop in ("C06", "C07", "C11", "C13"):
        r, consts = p_flow.mc_sample(prop, tier, wd)
        out.append(("MC_Sample", consts, p_flow.MC_INVS[prop], r))
    if prop in MC:
        mod, invs, acts = MC[prop]
        if mod == "MC_TropBound":
            consts = (dict(V=2, EMIN=2, EMAX=3, LMAX=2, DD=1, PK=1, MS={0, 1}, XS={1, 2, 3}) if tier == "quick" else
                      dict(V=3, EMIN=2, EMAX=3, LMAX=2, DD=1, PK=1, MS={0, 1}, XS={1, 2, 3}))
        else:
            consts = (dict(V=2, EMIN=1, EMAX=3, LMAX=2, DD=1, XS={1, 2}, PS={0, 1}, MS={1}, CS={1}, KS={1}) if tier == "quick" else
                      dict(V=2, EMIN=1, EMAX=3, LMAX=2, DD=1, XS={1, 2, 3}, PS={0, 1}, MS={0, 1}, CS={1}, KS={1}))
        cfg = core.cfg_text(constants=consts, invariants=invs)
        r = core.tlc(mod, cfg, mod.lower(), wd, workers=12, timeout=900 if tier == "quick" else 2400,
                     allow_timeout=(tier != "quick"))
        if r.violated:
            raise core.ToolError("specification-level check failed: %s violates %s\n%s" % (mod, r.violated, r.out[-2000:]))
        if not r.timed_out:
            core.require_coverage(r, acts, mod)
        out.append((mod, consts, invs, r))
    return out


def gen_routing(tier, wd, seed):
    rnd = random.Random(seed + 11)
    path = os.path.join(wd, "routing.ndjson")
    open(path, "w").close()
    base = dict(MODE='"enum"', V=3, EMIN=1, EMAX=3, LMIN=1, LMAX=3, WSET={3, 4, 5, 6, 8}, WD=4, DSET={1, 2, 3, 4, 5, 6}, PK=2,
                MSET={0, 0, 1, 2}, NROUT=3, NSAMP=4, STRIDE=1, OFFSET=0, NSK=1)
    runs = []
    if tier == "quick":
        runs.append(dict(base, V=2, EMAX=3, NSAMP=10))
        runs.append(dict(base, EMIN=2, EMAX=3, NSAMP=4, STRIDE=3, OFFSET=rnd.randrange(3)))
        runs.append(dict(base, EMIN=4, EMAX=4, NSAMP=3, STRIDE=40, OFFSET=rnd.randrange(40)))
        runs.append(dict(base, MODE='"cat"', EMIN=1, EMAX=7, LMAX=5, NSAMP=25, WSET={4, 5, 6, 8, 10}))
        runs.append(dict(base, MODE='"rand"', V=4, EMIN=5, EMAX=6, LMAX=4, NSK=40, NSAMP=12, WSET={5, 6, 8, 10}, PK=1))
        # 4- and 5-loop topologies need heavy weights to be accepted: a dedicated draw so that they are always present
        runs.append(dict(base, MODE='"cat"', EMIN=5, EMAX=7, LMIN=4, LMAX=5, NSAMP=400, WSET={5, 6, 7, 8, 9, 10, 11, 12}, DSET={1, 2, 3, 4, 5}, MSET={0, 1, 1, 2}))
        # polygons, ladders and kites, mostly massless, with sparse reference flows (two or three external vertices anywhere on the
        # graph) and permuted edge lists: disconnected but momentum-spanning subsets whose first-listed component carries no external
        runs.append(dict(base, MODE='"cat"', EMIN=4, EMAX=7, LMIN=1, LMAX=3, NSAMP=40, WSET={4, 5, 6, 8}, DSET={1, 2, 3, 4}, MSET={0, 0, 0, 1}))
        # chains of bubbles and ladders with 8 edges: four loops whose L matrix is sparse
        runs.append(dict(base, MODE='"cat"', EMIN=8, EMAX=8, LMIN=3, LMAX=4, NSAMP=30, WSET={3, 4, 5, 6}, DSET={3, 4, 5, 6}, MSET={0, 1, 1, 2}))
    else:
        runs.append(dict(base, V=2, EMAX=4, NSAMP=40))
        runs.append(dict(base, EMIN=2, EMAX=3, NSAMP=20))
        runs.append(dict(base, EMIN=4, EMAX=4, NSAMP=8, STRIDE=5, OFFSET=rnd.randrange(5)))
        runs.append(dict(base, V=4, EMIN=5, EMAX=5, NSAMP=4, STRIDE=400, OFFSET=rnd.randrange(400)))
        runs.append(dict(base, MODE='"cat"', EMIN=1, EMAX=7, LMAX=5, NSAMP=400, WSET={4, 5, 6, 8, 10}))
        runs.append(dict(base, MODE='"rand"', V=5, EMIN=5, EMAX=7, LMAX=5, NSK=600, NSAMP=12, WSET={5, 6, 8, 10}, PK=1))
        runs.append(dict(base, MODE='"cat"', EMIN=4, EMAX=7, LMIN=1, LMAX=3, NSAMP=400, WSET={4, 5, 6, 8}, DSET={1, 2, 3, 4}, MSET={0, 0, 0, 1}))
        runs.append(dict(base, MODE='"cat"', EMIN=8, EMAX=8, LMIN=3, LMAX=4, NSAMP=300, WSET={3, 4, 5, 6}, DSET={3, 4, 5, 6}, MSET={0, 1, 1, 2}))
        runs.append(dict(base, MODE='"cat"', EMIN=5, EMAX=7, LMIN=4, LMAX=5, NSAMP=3000, WSET={5, 6, 7, 8, 9, 10, 11, 12}, DSET={1, 2, 3, 4, 5, 6}, MSET={0, 1, 1, 2}))
    st = 0
    for i, c in enumerate(runs):
        r = core.tlc("Gen_Routing", core.cfg_text(constants=c, invariants=["Emit"]), "gen_routing_%d" % i, wd, workers=12,
                     timeout=7200, coverage=False, replay_to=path, seed=seed + i)
        st += r.distinct
    n = core.count_lines(path)
    if n < 100:
        raise core.ToolError("vacuity guard: Gen_Routing emitted only %d lines" % n)
    n5 = sum(1 for l in open(path) if '"L":5' in l)
    if n5 < 1:
        raise core.ToolError("vacuity guard: no five-loop line among %d" % n)
    return path, runs, st, n


DD_PROPS = ("C06", "C07", "C08", "C09", "C10", "C11", "C12", "C13", "C15", "C16", "C19")


def dd_part(prop, tier, wd, seed, path):
    """the relations once more with a double-double scalar as the user's type (harness checks/ddprec.rs); returns
    (violations of prop, counters)"""
    s = core.mt("replay-dd", path, os.path.join(wd, "dd.json"), seed, {"points": 4 if tier == "quick" else 12,
                                                                        "max": 600 if tier == "quick" else 100000})
    c = s["counters"]
    if c.get("dd_points_checked", 0) < 500:
        raise core.ToolError("vacuity guard: only %d points checked with the double-double scalar" % c.get("dd_points_checked", 0))
    return [v for v in s["violations"] if v["property"] == prop], c


def run(prop, tier, seed, replay=None):
    t0 = time.time()
    wd = core.workdir(prop)
    core.cargo_build()
    if replay:
        rp = json.load(open(replay))
        if rp["instance"].get("dd"):
            inp = os.path.join(wd, "replay.ndjson")
            core.write_lines(inp, [] if ("gamma" in rp["instance"] or "matrix" in rp["instance"]) else [rp["instance"]["line"]])
            s = core.mt("replay-dd", inp, os.path.join(wd, "sum.json"), rp.get("seed", seed), {"base_idx": rp["instance"].get("idx", 0), "points": 12})
            bad = [v for v in s["violations"] if v["property"] == prop]
            print(("VIOLATION property=%s replay=%s" % (prop, replay)) if bad else ("OK property=%s (replay)" % prop))
            return 1 if bad else 0
        if "run" in rp["instance"]:
            return p_flow.run(prop, tier, seed, replay)
        if "size_limit" in rp["instance"]:
            from . import p_table
            return p_table.run(prop, tier, seed, replay)
        inp = os.path.join(wd, "replay.ndjson")
        core.write_lines(inp, [rp["instance"]["line"]])
        if "steer" in rp["instance"]["line"]:
            s = core.mt("replay-sector", inp, os.path.join(wd, "sum.json"), rp.get("seed", seed), {"base_idx": rp["instance"].get("idx", 0), "points": 6})
        else:
            # the points of a line are drawn from (seed, line index, options): the options of the run that found the violation are reused
            s = core.mt("replay-sample", inp, os.path.join(wd, "sum.json"), rp.get("seed", seed), dict(rp.get("opts") or {}, base_idx=rp["instance"].get("idx", 0)))
        bad = [v for v in s["violations"] if v["property"] == prop]
        known = core.load_known()
        new = [v for v in bad if not core.match_known(prop, v, known)]
        for v in new[:5]:
            core.log("  ", v["what"])
        print(("VIOLATION property=%s replay=%s" % (prop, replay)) if new else ("OK property=%s (replay)" % prop))
        return 1 if new else 0
    mcs = mc_for(prop, tier, wd)
    path, runs, gstates, nlines = gen_routing(tier, wd, seed)
    sopts = {"points": 30 if tier == "quick" else 80, "boundary": 1 if prop == "C06" else 0}
    s = core.mt("replay-sample", path, os.path.join(wd, "sum.json"), seed, sopts)
    violations = list(s["violations"])
    c = s["counters"]
    if c.get("log_missing", 0) > 0.1 * max(1, c.get("outcome_Ok", 0)):
        raise core.ToolError("the repository's debug log (feature `log`, print_debug_info) did not deliver the Feynman parameters for %d of %d samples: "
                             "the observation point of these checks is gone" % (c.get("log_missing", 0), c.get("outcome_Ok", 0)))
    if c.get("outcome_Ok", 0) < 1000:
        raise core.ToolError("vacuity guard: only %d successful samples" % c.get("outcome_Ok", 0))
    sec = None
    if prop in ("C06", "C07"):
        # behaviours of the Sample machine itself, replayed: order, xi exponents, flag edges (bit for bit)
        rnd = random.Random(seed + 23)
        sp = os.path.join(wd, "sector.ndjson")
        open(sp, "w").close()
        sruns = ([dict(V=2, EMIN=2, EMAX=3, WSET={2, 4, 6}, WD=4, DSET={1, 3}, EXTV=2, STRIDE=17, OFFSET=rnd.randrange(17)),
                  dict(V=3, EMIN=3, EMAX=3, WSET={4}, WD=4, DSET={2}, EXTV=2, STRIDE=11, OFFSET=rnd.randrange(11))] if tier == "quick" else
                 [dict(V=2, EMIN=2, EMAX=3, WSET={2, 3, 4, 6}, WD=4, DSET={1, 2, 3, 4}, EXTV=3, STRIDE=7, OFFSET=rnd.randrange(7)),
                  dict(V=3, EMIN=3, EMAX=3, WSET={4, 6}, WD=4, DSET={1, 3}, EXTV=2, STRIDE=11, OFFSET=rnd.randrange(11)),
                  dict(V=2, EMIN=4, EMAX=4, WSET={4, 6}, WD=4, DSET={1, 3}, EXTV=2, STRIDE=53, OFFSET=rnd.randrange(53))])
        sst = 0
        for i, c_ in enumerate(sruns):
            gr = core.tlc("Gen_Sector", core.cfg_text(spec="MCSpec", constants=c_, invariants=["EmitSector"]), "gen_sector_%d" % i, wd,
                          workers=12, timeout=7200, coverage=False, replay_to=sp)
            sst += gr.distinct
        ss = core.mt("replay-sector", sp, os.path.join(wd, "sector.json"), seed, {"points": 3})
        if ss["counters"].get("behaviours_replayed", 0) < 200:
            raise core.ToolError("vacuity guard: only %s Sample behaviours replayed" % ss["counters"].get("behaviours_replayed"))
        violations += ss["violations"]
        sec = {"module": "Gen_Sector", "lines": core.count_lines(sp), "generator_states": sst, "behaviours_replayed": ss["counters"].get("behaviours_replayed", 0),
               "counters": ss["counters"]}
        for k, v in ss["counters"].items():
            if k.startswith("violations_"):
                c[k] = c.get(k, 0) + v
    tv = None
    if prop in ("C06", "C13", "C09", "C10", "C11"):
        # trace part: value of the coordinate vs. exact cumulative sums, inside TLC (C06, C13); which kinematic arguments of the
        # call flow into v, the momenta, the jacobian and L^-1 u (C09, C10, C11: Sample!KinMasses / KinShiftsMin / Max)
        gpath, gruns, gst = p_flow.gen_graphs(tier, wd, seed)
        trace = os.path.join(wd, "trace.ndjson")
        ng = (300 if tier == "quick" else 3000) if prop in ("C06", "C13") else (150 if tier == "quick" else 1500)
        fs = core.mt("record-flow", gpath, os.path.join(wd, "flow.json"), seed,
                     {"trace": trace, "graphs": ng, "runs": 4})
        acc, rej, tstates, tgen = p_flow.validate(trace, wd)
        for x in rej:
            p = p_flow.attribute(x["event"], x.get("run"))
            violations.append({"property": p, "what": "recorded execution is not a behaviour of the Sample specification: first unmatched event %s"
                               % json.dumps(x["event"])[:300], "instance": {"run": x["run"]}, "detail": {"event": x["event"], "runner": "trace-sample"}})
        tv = {"module": "Trace_Sample", "events": fs["events"], "runs": fs["evaluations"], "accepted_runs": acc, "rejected_runs": len(rej), "tlc_states": tstates}
    ddc = None
    if prop in DD_PROPS:
        ddv, ddc = dd_part(prop, tier, wd, seed, path)
        violations += ddv
        c["violations_" + prop] = c.get("violations_" + prop, 0) + ddc.get("violations_" + prop, 0)
    states = sum(r.distinct for (_, _, _, r) in mcs) + (tv["tlc_states"] if tv else 0)
    trans = sum(r.generated for (_, _, _, r) in mcs)
    cov = {
        "states": states, "transitions": trans,
        "traces_validated_against_impl": c.get("lines", 0) + (tv["accepted_runs"] if tv else 0),
        "samples": s["samples"][:2],
        "evaluations": s["evaluations"], "distinct_nontrivial": s["nontrivial"],
        "rule": "Gen_Routing: connected skeletons of G(v,e) and the named catalogue (bananas up to 5 loops, polygons, mercedes, ladder ...), "
                "random masses / reference flow / weights / D accepted by the specification, 3 routings of the same kinematics; the harness "
                "visits every sector (E <= 4) or random sectors, plus unsteered and corner-value points; evaluations = samples drawn; "
                "non-trivial = lines with >= 2 loops",
        "exhaustive": False,
        "tlc_models": [{"module": m, "constants": {k: (sorted(v) if isinstance(v, set) else v) for k, v in cs.items()}, "invariants": iv,
                        "states": r.distinct, "action_counts": r.coverage, "timed_out": r.timed_out, "wall_s": round(r.wall, 1)} for (m, cs, iv, r) in mcs],
        "generator": {"module": "Gen_Routing", "lines": nlines, "generator_states": gstates},
        "harness_counters": c,
        "trusted_base": ["TLC 1.8", "momtrop's own debug log (feature `log`) for the unrescaled parameters",
                         "harness Lanczos lnGamma (numeric value of the normalisation)", "f64 evaluation of positive-term polynomials"],
    }
    if tv:
        cov["trace_validation"] = tv
    if ddc:
        cov["double_double_scalar"] = {"what": "the same relations with a double-double user type at ~1e-27 x condition (harness checks/ddprec.rs)", "counters": ddc}
    if sec:
        cov["sample_behaviours_replayed"] = sec
        cov["traces_validated_against_impl"] += sec["behaviours_replayed"]
    assumptions = ["tolerances scale with the condition number of L and the cancellation ratio of V computed from the specification's "
                   "polynomials; points beyond 1e8 are skipped and counted", "generic kinematics (no partial sum of external momenta vanishes) "
                   "for the tropical comparisons"]
    return core.finish(prop, tier, seed, "model_checking", cov, assumptions, t0, violations, {"runner": "replay-sample", "seed": seed, "opts": sopts})
