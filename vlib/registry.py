from . import p_table, p_flow
PROPS = {
    "C03": p_table.run, "C04": p_table.run, "C05": p_table.run,
    "C13": p_flow.run, "C14": p_flow.run, "C19": p_flow.run,
}
