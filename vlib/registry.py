from . import p_table, p_flow, p_sample, p_matrix, p_misc, p_api
PROPS = {
    "C02": p_sample.run, "C03": p_table.run, "C04": p_table.run, "C05": p_table.run,
    "C06": p_sample.run, "C07": p_sample.run, "C08": p_sample.run, "C09": p_sample.run, "C10": p_sample.run, "C11": p_sample.run,
    "C15": p_matrix.run, "C16": p_matrix.run,
    "C12": p_misc.run_c12, "C20": p_misc.run_c20,
    "C17": p_api.run, "C18": p_api.run,
    "C13": p_sample.run, "C14": p_flow.run, "C19": p_flow.run,
}
