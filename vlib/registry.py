from . import p_table
PROPS = {
    "C03": p_table.run, "C04": p_table.run, "C05": p_table.run,
}
