"""Driver core: TLC runs, harness runs, evidence, known findings, verdict printing."""
import json, os, re, subprocess, sys, time, shutil, hashlib

ROOT = os.path.dirname(os.path.dirname(os.path.abspath(__file__)))
OUT = os.path.join(ROOT, "out")
SPEC = os.path.join(ROOT, "spec")
HARNESS = os.path.join(ROOT, "harness")
MT = os.path.join(HARNESS, "target", "verif", "mt")
TLCW = os.path.join(ROOT, "bin", "tlcw")


class ToolError(Exception):
    pass


def log(*a):
    print("[check]", *a, file=sys.stderr, flush=True)


def ensure_dir(p):
    os.makedirs(p, exist_ok=True)
    return p


def workdir(prop):
    d = os.path.join(OUT, prop)
    if os.path.isdir(d):
        shutil.rmtree(d, ignore_errors=True)
    return ensure_dir(d)


_built = False


def cargo_build():
    """(Re)build the harness against /repo's current working tree."""
    global _built
    if _built:
        return
    t = time.time()
    env = dict(os.environ, CARGO_NET_OFFLINE="true")
    r = subprocess.run(["cargo", "build", "--offline", "--profile", "verif", "--bins"], cwd=HARNESS,
                       env=env, stdout=subprocess.PIPE, stderr=subprocess.STDOUT, text=True)
    if r.returncode != 0:
        sys.stderr.write(r.stdout[-6000:])
        raise ToolError("cargo build of the harness failed (compile error in /repo or harness)")
    _built = True
    log("harness built in %.1fs" % (time.time() - t))


def cfg_text(spec="Spec", constants=None, invariants=(), properties=(), constraint=None, view=None,
             postcondition=None, overrides=None, init_next=None):
    lines = []
    if init_next:
        lines += ["INIT %s" % init_next[0], "NEXT %s" % init_next[1]]
    else:
        lines.append("SPECIFICATION %s" % spec)
    cs = []
    for k, v in (constants or {}).items():
        cs.append("  %s = %s" % (k, tla_val(v)))
    for k, v in (overrides or {}).items():
        cs.append("  %s <- %s" % (k, v))
    if cs:
        lines.append("CONSTANTS")
        lines += cs
    if invariants:
        lines.append("INVARIANTS " + " ".join(invariants))
    if properties:
        lines.append("PROPERTIES " + " ".join(properties))
    if constraint:
        lines.append("CONSTRAINT " + constraint)
    if view:
        lines.append("VIEW " + view)
    if postcondition:
        lines.append("POSTCONDITION " + postcondition)
    lines.append("CHECK_DEADLOCK FALSE")
    return "\n".join(lines) + "\n"


def tla_val(v):
    if isinstance(v, bool):
        return "TRUE" if v else "FALSE"
    if isinstance(v, int):
        return str(v)
    if isinstance(v, (set, frozenset)):
        return "{" + ", ".join(tla_val(x) for x in sorted(v)) + "}"
    if isinstance(v, (list, tuple)):
        return "<<" + ", ".join(tla_val(x) for x in v) + ">>"
    if isinstance(v, str):
        return v  # raw TLA text (model value or quoted by caller)
    raise ValueError(v)


_STAT = re.compile(r"(\d+) states generated, (\d+) distinct states found")
_COV = re.compile(r"^<(\w+) line \d+, col \d+ to line \d+, col \d+ of module (\w+)>: (\d+):(\d+)", re.M)
_REPLAY = re.compile(r'^<<"REPLAY", "(.*)">>\s*$')


class TlcResult:
    def __init__(self):
        self.generated = 0
        self.distinct = 0
        self.coverage = {}
        self.replay = []     # parsed JSON objects
        self.violated = None  # name of violated invariant / property, if any
        self.out = ""
        self.wall = 0.0
        self.rc = 0
        self.timed_out = False


def unquote_tla_string(s):
    # TLC prints TLA+ strings with \" and \\ escapes
    return json.loads('"' + s + '"')


def tlc(module, cfg, name, wd, workers=8, timeout=600, simulate=None, depth=None, seed=None,
        env_extra=None, coverage=True, dfs=False, replay_to=None, xmx=None, allow_timeout=False,
        extra_args=()):
    """Run TLC on spec/<module>.tla (searched in spec/ and its sub-directories) with cfg text.
    REPLAY lines are streamed to file `replay_to` (one JSON per line) when given."""
    path = None
    for sub in ("", "mc", "gen", "trace"):
        p = os.path.join(SPEC, sub, module + ".tla")
        if os.path.exists(p):
            path = p
    if path is None:
        raise ToolError("no module " + module)
    cfgp = os.path.join(wd, name + ".cfg")
    with open(cfgp, "w") as f:
        f.write(cfg)
    meta = os.path.join(wd, name + ".meta")
    args = [TLCW, "-metadir", meta, "-cleanup", "-noGenerateSpecTE", "-config", cfgp]
    if simulate:
        args += ["-simulate", "num=%d" % simulate]
        if depth:
            args += ["-depth", str(depth)]
        args += ["-workers", str(workers)]
    else:
        args += ["-workers", str(workers)]
        if coverage:
            args += ["-coverage", "1"]
    if seed is not None:
        args += ["-seed", str(seed)]
    args += list(extra_args)
    args.append(path)
    env = dict(os.environ)
    if dfs:
        env["TLC_JAVA_OPTS"] = "-Dtlc2.tool.queue.IStateQueue=StateDeque"
    if xmx:
        env["TLC_XMX"] = "-Xmx" + xmx
    if env_extra:
        env.update(env_extra)
    res = TlcResult()
    t0 = time.time()
    outp = os.path.join(wd, name + ".tlc.out")
    rf = open(replay_to, "a") if replay_to else None
    with open(outp, "w") as of:
        p = subprocess.Popen(["timeout", str(timeout)] + args, cwd=os.path.dirname(path), env=env,
                             stdout=subprocess.PIPE, stderr=subprocess.STDOUT, text=True)
        keep = []
        for line in p.stdout:
            m = _REPLAY.match(line)
            if m:
                try:
                    js = unquote_tla_string(m.group(1))
                except Exception as e:
                    raise ToolError("cannot parse REPLAY line: %r" % line[:200])
                if rf:
                    rf.write(js + "\n")
                else:
                    res.replay.append(json.loads(js))
                continue
            of.write(line)
            if len(keep) < 20000:
                keep.append(line)
        p.wait()
    if rf:
        rf.close()
    res.rc = p.returncode
    res.wall = time.time() - t0
    res.out = "".join(keep)
    m = None
    for m in _STAT.finditer(res.out):
        pass
    if m:
        res.generated, res.distinct = int(m.group(1)), int(m.group(2))
    for m in _COV.finditer(res.out):
        res.coverage[m.group(1)] = res.coverage.get(m.group(1), 0) + int(m.group(4))
    shutil.rmtree(meta, ignore_errors=True)
    if res.rc == 124:
        res.timed_out = True
        if not allow_timeout:
            raise ToolError("TLC timed out on %s after %ds" % (module, timeout))
        return res
    mv = re.search(r"Error: Invariant (\w+) is violated", res.out)
    if mv:
        res.violated = mv.group(1)
    mv = re.search(r"Error: Action property (\w+) is violated|Error: Temporal properties were violated", res.out)
    if mv and not res.violated:
        res.violated = mv.group(1) or "temporal"
    if "Error: The postcondition" in res.out or "Error: Postcondition" in res.out or "postcondition is violated" in res.out.lower():
        res.violated = res.violated or "postcondition"
    if res.rc != 0 and not res.violated:
        tail = res.out[-3000:]
        raise ToolError("TLC failed on %s (rc=%d):\n%s" % (module, res.rc, tail))
    return res


LIVENESS = []   # liveness results of this run; finish() copies them into the evidence


def liveness(module, spec, constants, prop_name, name, wd, overrides=None, timeout=900, workers=6):
    """complete-state-space check of a temporal property under weak fairness (no state constraint, so a
    non-progress cycle cannot hide); a failure is an inconsistency of the specification -> ToolError"""
    cfg = cfg_text(spec=spec, constants=constants, properties=[prop_name], overrides=overrides)
    r = tlc(module, cfg, name, wd, workers=workers, timeout=timeout, coverage=False)
    if r.violated or r.timed_out:
        raise ToolError("specification-level liveness check failed: %s does not satisfy %s (%s)\n%s"
                        % (module, prop_name, r.violated or "timeout", r.out[-1500:]))
    if "Checking temporal properties for the complete state space" not in r.out:
        raise ToolError("liveness check of %s did not examine the complete state space\n%s" % (module, r.out[-800:]))
    d = {"module": module, "specification": spec, "property": prop_name, "distinct_states": r.distinct,
         "constants": {k: (sorted(v) if isinstance(v, set) else v) for k, v in constants.items()}, "wall_s": round(r.wall, 1)}
    LIVENESS.append(d)
    return d


def require_coverage(res, actions, module):
    missing = [a for a in actions if res.coverage.get(a, 0) == 0]
    if missing:
        raise ToolError("vacuity guard: actions never taken in %s: %s" % (module, missing))


def mt(cmd, infile, outfile, seed, opts=None, timeout=3600):
    args = [MT, cmd, "--out", outfile, "--seed", str(seed)]
    if infile:
        args += ["--in", infile]
    for k, v in (opts or {}).items():
        args += ["--opt", "%s=%s" % (k, v)]
    t0 = time.time()
    r = subprocess.run(["timeout", str(timeout)] + args, stdout=subprocess.PIPE, stderr=subprocess.PIPE, text=True)
    if r.returncode != 0:
        raise ToolError("harness %s failed rc=%d: %s" % (cmd, r.returncode, r.stderr[-3000:]))
    with open(outfile) as f:
        s = json.load(f)
    s["wall"] = time.time() - t0
    return s


def write_lines(path, objs):
    with open(path, "w") as f:
        for o in objs:
            f.write(json.dumps(o, separators=(",", ":")) + "\n")


def count_lines(path):
    n = 0
    with open(path) as f:
        for _ in f:
            n += 1
    return n


# ---------------------------------------------------------------- trace lint (Json module hazards)
def lint_trace_value(v, path="$"):
    if v is None:
        raise ToolError("trace lint: null at " + path)
    if isinstance(v, bool):
        return
    if isinstance(v, float):
        raise ToolError("trace lint: non-integer number at %s" % path)
    if isinstance(v, int):
        if abs(v) >= 2 ** 31:
            raise ToolError("trace lint: integer out of 32-bit range at %s" % path)
        return
    if isinstance(v, str):
        return
    if isinstance(v, list):
        for i, x in enumerate(v):
            lint_trace_value(x, "%s[%d]" % (path, i))
        return
    if isinstance(v, dict):
        for k, x in v.items():
            lint_trace_value(x, path + "." + k)
        return
    raise ToolError("trace lint: unsupported value at " + path)


def lint_trace_file(path):
    n = 0
    with open(path) as f:
        for line in f:
            if line.strip():
                lint_trace_value(json.loads(line))
                n += 1
    return n


# ---------------------------------------------------------------- known findings
def load_known():
    p = os.path.join(ROOT, "known_findings.json")
    if not os.path.exists(p):
        return []
    with open(p) as f:
        return json.load(f).get("findings", [])


def match_known(prop, violation, known):
    """A violation matches a `known` entry when property is equal and every key of entry['match']
    is found (as a substring for strings / equal for other values) in the violation's what/detail."""
    for k in known:
        if k.get("status") != "known" or k.get("property") != prop:
            continue
        m = k.get("match", {})
        ok = True
        for key, want in m.items():
            have = violation.get(key)
            if have is None:
                have = (violation.get("detail") or {}).get(key) if isinstance(violation.get("detail"), dict) else None
            if isinstance(want, str):
                if not isinstance(have, str) or want not in have:
                    ok = False
            elif have != want:
                ok = False
        if ok:
            return k
    return None


# ---------------------------------------------------------------- evidence & verdict
def write_evidence(prop, tier, seed, level, coverage, assumptions, wall, nviol):
    ensure_dir(os.path.join(ROOT, "evidence"))
    ev = {"property_id": prop, "tier": tier, "seed": seed, "level": level, "coverage": coverage,
          "assumptions": assumptions, "wall_s": round(wall, 2), "violations": nviol}
    with open(os.path.join(ROOT, "evidence", prop + ".json"), "w") as f:
        json.dump(ev, f, indent=1, sort_keys=True)
        f.write("\n")


def finish(prop, tier, seed, level, coverage, assumptions, t0, violations, replay_meta):
    """violations: list of dicts {property, what, instance, detail}; only those of `prop` count."""
    known = load_known()
    mine = [v for v in violations if v.get("property") == prop]
    total = (coverage.get("harness_counters") or {}).get("violations_" + prop, 0)
    if total and not mine:
        raise ToolError("harness counted %d violations of %s but handed none over" % (total, prop))
    new, kf = [], {}
    for v in mine:
        k = match_known(prop, v, known)
        if k:
            kf.setdefault(k["id"], (k, 0))
            kf[k["id"]] = (k, kf[k["id"]][1] + 1)
        else:
            new.append(v)
    coverage = dict(coverage)
    if LIVENESS:
        coverage["liveness"] = list(LIVENESS)
    coverage["known_findings_hit"] = {i: n for i, (k, n) in kf.items()}
    write_evidence(prop, tier, seed, level, coverage, assumptions, time.time() - t0, len(new))
    for i, (k, n) in kf.items():
        print("KNOWN-FINDING: property=%s %s (%s; %d occurrence(s) this run)" % (prop, k["what"], i, n))
    if new:
        rd = ensure_dir(os.path.join(OUT, "replay"))
        for i, v in enumerate(new[:20]):
            path = os.path.join(rd, "%s_%d.json" % (prop, i))
            with open(path, "w") as f:
                json.dump(dict(replay_meta, property=prop, what=v.get("what"), instance=v.get("instance"),
                               detail=v.get("detail")), f, indent=1)
            print("VIOLATION property=%s replay=%s" % (prop, path))
            log("  ", v.get("what"))
        return 1
    print("OK property=%s tier=%s" % (prop, tier))
    return 0
