"""Source of truth for MANIFEST.json (python3 -m vlib.mkmanifest regenerates it)."""

TB = "Trusted base: TLC 1.8 and the TLA+ modules under spec/; the Rust harness (harness/) that drives momtrop's public API only."

CHECKS = {
    "C03": dict(
        engine="tlc+replay",
        technique="TLA+ model of build_sampler (Build.tla) checked by TLC against the declarative table (TropGraph.tla); TLC-generated graphs with exact tables replayed into the real build_sampler, every subset compared",
        design_ref="DESIGN.md section 4, C03",
        text="TLC checks, for every multigraph below a size bound, that the step-by-step model of the table construction (work-list component search, flag loop) yields cyclomatic number, spanning flag and omega as defined declaratively; TLC then prints graphs with their exact tables and the harness builds the real sampler (D = 1..6, random u8 labels) and compares all 2^E entries and the reported dod / L / E / weights / dimension. Model checking of the design plus replay conformance of the code is the right level: the statement is combinatorial and exact.",
        note=TB + " serde view of SampleGenerator is taken as the table's content."),
    "C04": dict(
        engine="tlc+replay",
        technique="TLA+ model of the memoised J recursion checked by TLC against the defining recursion in exact rationals; exact J tables replayed against the built sampler",
        design_ref="DESIGN.md section 4, C04",
        text="TLC checks on exact rationals that the explicit-stack model of recursive_fill_j_function computes the defining recursion for every subset, that J(full) equals the sum over all E! orderings, that all J > 0 and that edge probabilities sum to one; the generator prints J as exact n/d for every subset and the harness compares the real table (64 E ulp), re-evaluates the recursion on the stored doubles and checks the cached normalisation.",
        note=TB + " Numeric value of Gamma(dod)/prod Gamma(w) pi^(DL/2) comes from the harness' own Lanczos lnGamma (1e-11 relative)."),
    "C05": dict(
        engine="tlc+replay",
        technique="TLA+ model of the early-exit divergence check verified by TLC (Err iff some proper subset has omega <= 0); exact omega = 0 boundary instances replayed; determinism across rebuilds and processes",
        design_ref="DESIGN.md section 4, C05",
        text="TLC checks that the model returns Err exactly for graphs with a non-empty proper subset of omega <= 0 (at the first such id) and Ok with positive J otherwise; the generator marks each graph divergent or not on exact quarter-unit integers so omega = 0 occurs exactly; the harness requires is_err() == divergent, no panic, finite positive J, and byte-identical serialisation across two builds and a second process.",
        note=TB + " Sizes E in 21..63 are not explorable (2^E table)."),
}

CHECKS.update({
    "C02": dict(
        engine="tlc+replay",
        technique="tropical theorem (flag-based U_tr, V_tr = largest monomials; bounds with N_T, c_min, C_sum) model-checked by TLC on exact integers (MC_TropBound); TLC-generated graphs with their constants replayed into the real sampler in every sector",
        design_ref="DESIGN.md section 4, C02",
        text="TLC checks on every connected multigraph / mass pattern / generic reference flow / removal order / ordered parameter assignment below a bound that the sampler's flag rule yields the largest monomials of U and F and that U_tr <= U <= N_T U_tr, c_min F_tr <= F <= C_sum F_tr. Gen_Routing prints N_T, c_min, C_sum and the monomial lists; the harness visits every sector of each graph and checks the four inequalities and the interval for jacobian/normalisation at the unrescaled parameters.",
        note=TB + " Slack 1e-9 x exact cancellation ratio; points with cancellation x condition > 1e8 skipped and counted; generic kinematics only."),
    "C06": dict(
        engine="tlc+replay+trace",
        technique="Sample.tla edge-choice action checked by TLC (probabilities positive, cumulative sums end at exactly 1); exact cumulative boundaries replayed at, one ulp around and next to 1; recorded executions validated by Trace_Sample with the coordinate value compared to exact rational boundaries inside TLC",
        design_ref="DESIGN.md section 4, C06",
        text="TLC establishes totality of the inverse-CDF step in the model for all accepted graphs below a bound. Binding R: for every reachable subgraph the harness steers the real sampler there and tries coordinates 0, subnormal, every exact boundary b(1 -+ 1e-6), its floating neighbours, midpoints, 1-1e-9, 1-2^-52, 1-2^-53: outside the guard band the edge must be the specification's, inside either neighbour, always some edge and no panic. Binding V: executions with the tracking scalar, coordinates on the lattice k/1024, validated by TLC against Cum() as exact rationals.",
        note=TB + " Rationals exceeding 32 bits are skipped and counted."),
    "C07": dict(
        engine="tlc+replay",
        technique="sector bookkeeping of Sample.tla (xi-factor count, omega exponents, tropical flags, log-linear rescaling identity) checked by TLC; tropical theorem by MC_TropBound; replay in every sector with brute-force maxima over TLC-supplied monomials",
        design_ref="DESIGN.md section 4, C07",
        text="TLC checks the sector formula, that the flags equal their declarative characterisation, and that the code's rescaling expression normalises U_tr^(D/2) V_tr^dod identically (exact rational exponent algebra, all D). The harness steers into every edge order, and compares the repository's own debug log with prod xi_j^(1/omega(g_j)) (omega from TLC), with the largest monomial of U and of F/U evaluated from the TLC monomial lists, and with the normalisation identity.",
        note=TB + " Generic kinematics for the V_tr comparison; points whose rescaling factor is not a normal double (parameter spread beyond ~1e-100) are skipped and counted."),
    "C08": dict(
        engine="tlc+replay",
        technique="matrix-tree identity det(S^T X S) = sum over spanning trees for every cycle basis (tree x unimodular change x re-orientation) model-checked by TLC on integers; spanning-tree monomials and signatures replayed",
        design_ref="DESIGN.md section 4, C08",
        text="MC_Symanzik: TLC checks symmetry of L and the matrix-tree identity for all connected graphs below a bound and all cycle bases. Gen_Routing prints three routings per graph and U as a monomial list; the harness checks every L entry against sum_e x_e s_ei s_ej at the observed parameters, u against the spanning-tree polynomial (tolerance 1e-13 x cond L), and equality of u across routings.",
        note=TB),
    "C09": dict(
        engine="tlc+replay",
        technique="F from 2-forests and masses = det(L) sum x(m^2+p^2) - u^T adj(L) u for every routing (basis, orientation, loop-momentum offsets) model-checked by TLC; F monomials with integer coefficients replayed; routing independence compared on the real sampler",
        design_ref="DESIGN.md section 4, C09",
        text="MC_Symanzik (InvF): for every routing of the same reference flow the algebraic F equals the 2-forest polynomial. The harness evaluates the TLC-supplied F at the observed parameters and compares with v x u (tolerance scaled by exact cancellation ratio and condition number), checks u_vectors entry by entry, and demands equal u, v, jacobian for three routings of the same kinematics at the same point.",
        note=TB),
    "C10": dict(
        engine="tlc+replay",
        technique="completing-the-square identity and L adj(L) = det(L) I model-checked by TLC (MC_Symanzik), Cholesky factor identities by MC_Matrix; four relations between returned loop momenta, Gaussians, lambda, shift and factor checked on every replayed sample",
        design_ref="DESIGN.md section 4, C10",
        text="On every sample of the Gen_Routing replay (1..5 loops, D = 1..6): sum_e x_e(|q_e|^2+m_e^2) = v(1+|q|^2/2 lambda); k + shift = sqrt(v/2 lambda) Q^-T q row by row; L shift = u_vectors; Qt^T Qt = L with Qt upper triangular.",
        note=TB + " Condition-scaled tolerances."),
    "C11": dict(
        engine="tlc+replay",
        technique="rescaling identity of Sample.tla checked by TLC for all D, L, omega; jacobian formula and its value at the UNRESCALED parameters recomputed from TLC-supplied I_tr, U and F monomials",
        design_ref="DESIGN.md section 4, C11",
        text="Every replayed sample: u_trop = v_trop = 1 bit-exactly; jacobian = u^(-D/2) v^(-dod) x stored normalisation; and jacobian = I_tr Gamma(dod)/prod Gamma(w) pi^(DL/2) (U_tr/U)^(D/2) (V_tr/V)^dod with every factor computed from the specification at the unrescaled parameters of the debug log (gauge invariance).",
        note=TB + " Gamma, pi numeric values from the harness (Lanczos)."),
    "C13": dict(
        engine="tlc+trace+replay",
        technique="Box-Muller index map of Sample.tla (cos/sin, pair positions, dropped last sine) checked by TLC; tracking-scalar executions validated by Trace_Sample (leaf pair and trig kind of each Gaussian); numeric value on every replayed sample",
        design_ref="DESIGN.md section 4, C13",
        text="TLC checks the map Gaussian n -> (trig, a, b) for all accepted graphs below a bound. Trace validation: for each recorded execution each q component must depend on exactly its pair and be the right trig function. Replay: q equals sqrt(-2 ln a) cos/sin(2 pi b) of the designated coordinates within 16 ulp, a down to the smallest normal double.",
        note=TB),
    "C14": dict(
        engine="tlc+trace",
        technique="read cursor, roles and information-flow sets of Sample.tla checked by TLC; executions of the real generic code with a tracking scalar validated event by event by Trace_Sample (reads in cursor order, exactly dim coordinates used, dependency sets within the model's)",
        design_ref="DESIGN.md section 4, C14",
        text="TLC: at return ctr = dimension, roles fixed by index, the three dependency groups disjoint and covering. Trace validation of 1.6k (quick) executions on random accepted graphs with surplus coordinates appended: every coordinate below the dimension acquires a use, none beyond; Feynman parameters / lambda / Gaussians depend only on their groups.",
        note=TB + " Dependencies are those observed by the tracking scalar in the executions explored."),
    "C15": dict(
        engine="tlc+replay+trace",
        technique="decompose_for_tropical mirrored loop by loop on exact rationals (Matrix.tla) and model-checked by TLC; exact results replayed bit-exactly on the real routine; accuracy classes against exact rational linear algebra validated by Trace_Matrix",
        design_ref="DESIGN.md section 4, C15",
        text="TLC checks for every M = R^T R below a bound that the machine returns an upper-triangular factor with positive diagonal, Qt^T Qt = M, the inverses and the cofactor determinant. The same inputs are an exactness scope for IEEE arithmetic: the real routine must return the exact rationals (<= 4 ulp, 0 expected). General SPD matrices (random, graded, Hilbert, L-like, ill-conditioned, dimension 1..8, cond <= 1e10): accuracy within 256 n^2 eps cond of BigRational results.",
        note=TB + " BigRational Gaussian elimination is the accuracy reference."),
    "C16": dict(
        engine="tlc+replay+trace",
        technique="outcome-class predicate of Matrix.tla; exact singular inputs from the TLA+ machine replayed (ZeroDet); singular / indefinite / non-finite / scaled / ill-conditioned matrices x 7 tolerances recorded and validated by Trace_Matrix; samples with the stability test on",
        design_ref="DESIGN.md section 4, C16",
        text="TLC: zero pivot product => ZeroDet; Ok => determinant non-zero. Trace validation of 3k (quick) calls: never Ok with zero determinant, with the test on never Ok with residual > tol or with NaN (residual recomputed by the documented L_2,1 formula, 1e-6 guard band), pivot-product class observed through the tracking scalar.",
        note=TB + " Only the `only if` direction raises a violation."),
    "C19": dict(
        engine="tlc+trace",
        technique="narrowing set of Sample.tla (only DrawLambda narrows, only coordinate 2E-2) checked by TLC; every to_f64 of the real generic code recorded by the tracking scalar and validated by Trace_Sample / Trace_Matrix",
        design_ref="DESIGN.md section 4, C19",
        text="Every to_f64 call made by sample::<Tr> (debug off) is an event; TLC rejects a narrowing whose argument depends on any user input other than coordinate 2E-2 (values built from table constants only are exempt). decompose_for_tropical::<Tr> must not narrow at all.",
        note=TB + " Dataflow by the tracking scalar; values by the harness' double-double scalar (unit-tested against BigRational)."),
})

CHECKS.update({
    "C12": dict(
        engine="tlc+trace", level="exploration",
        technique="control skeleton of inverse_gamma_lr as a TLA+ outcome automaton (TLC: only Err or finite positive, bounded iterations); dense (a,p) grid recorded and validated by Trace_Gamma; accuracy by an independent incomplete-gamma oracle; lambda of every replayed sample compared bit-exactly with the public function",
        design_ref="DESIGN.md section 4, C12 and section 6",
        text="Exploration level: the accuracy number |P(a,lambda)-p| cannot be computed by TLC; it is supplied by the harness' own series/continued-fraction P. The specification contributes the outcome automaton (no value other than a finite positive one may be returned as Ok), checked on every call of a grid covering every starting-value branch, a within 1e-8 of 1, p down to the smallest subnormal and up to 1-2^-53; plus the dataflow clause (lambda = function of dod and coordinate 2E-2) on every Gen_Routing sample.",
        note="Trusted base: harness P(a,x) (series / Lentz continued fraction) and Lanczos lnGamma, independent of statrs; TLC 1.8."),
    "C17": dict(
        engine="tlc+trace",
        technique="Api.tla (objects, origins, threads in flight, learnt result function) model-checked by TLC for immutability and functional results; real histories - sequential, 8-16 threads on shared samplers, rng entry point with a counting RNG, settings variants, a second OS process, momtrop compiled without `log` - recorded and validated by Trace_Api",
        design_ref="DESIGN.md section 4, C17",
        text="TLC explores all interleavings of build / clone / serialise / deserialise / begin / end for small constants: objects are never modified, results are a function of (origin, argument). Every End event of a recorded real history must agree bit for bit (digest of all result bits) with what was learnt for its (origin, argument), whatever object, thread, history position, process or flags; rng calls must draw exactly get_dimension() numbers and equal the x-space call on the same numbers. Sample.tla's PureCalls property (no action writes the table) is checked as well.",
        note=TB + " Interleavings of the recorded run are those the scheduler produced."),
    "C18": dict(
        engine="tlc+trace",
        technique="Serialize / Deserialize actions of Api.tla (a copy has the origin of the original) checked by TLC; JSON-text and serde_json::Value round trips of real samplers recorded in the API history and validated by Trace_Api (queries and samples of the copy must equal the original's)",
        design_ref="DESIGN.md section 4, C18",
        text="For every origin of the history the sampler is serialised (text with float_roundtrip, and Value), deserialised, re-serialised (must be identical), queried (dimension, dod, table digest, weights) and sampled on every argument; Trace_Api rejects any disagreement with the original object.",
        note=TB + " serde_json with float_roundtrip is the f64-exact format."),
    "C20": dict(
        engine="tlc+trace",
        technique="VectorAlg.tla: each Vector operation as a term of the free algebra (lemmas checked by TLC); the terms the real Vector<Tr, D> builds are recorded by the tracking scalar and compared by TLC modulo commutativity (fold spine ordered); recorded terms evaluated in IEEE arithmetic against Vector<f64, D>; f64 MomTropFloat against std",
        design_ref="DESIGN.md section 4, C20",
        text="D = 1..8, all public operations (+, -, * T, * &T, +=, dot, squared, constructors, accessors): the recorded term must be the specification's. Because the validated term is then evaluated on random/special f64 vectors and compared bit for bit with the f64 instantiation, the componentwise IEEE definition is decided for the real code. The scalar trait is a differential check against the standard library.",
        note=TB + " std f64 functions are the reference for the scalar trait."),
})

# additions made after the first full pass (DESIGN.md 11.2b): appended to the descriptions above
DD = (" The relations that involve returned values are evaluated once more with a double-double user scalar (harness dd.rs, mt replay-dd) "
      "at ~1e-27 x condition, with coordinates and masses that are not doubles.")
HIST = (" Histories on one thread / in one process precede the calls: the same graph built for another D, use - drop - rebuild with the new "
        "signature in the released heap block, a Gamma coordinate shared by consecutive samplers.")
EXTRA = {
    "C06": DD + " Edge selection in that type at the specification's rational boundaries +- 1e-24 (constants of the step stored exactly) and at 1 - 1e-25." + HIST,
    "C07": DD + HIST, "C08": DD + HIST + " A third of the points run with matrix_stability_test down to 0.",
    "C09": DD + HIST + " Masses on edges the graph does not flag massive; which masses and shifts of the call flow into v is bound by Trace_Sample (Sample!KinMasses).",
    "C10": DD + HIST + " Masses on edges the graph does not flag massive (numeric and as a dependency in Trace_Sample).",
    "C11": DD + HIST + " Kinematic dependencies of the jacobian bound by Trace_Sample.",
    "C12": " The quantile is also called with double-double p in [0,1) whose f64 image is 1.0." + HIST,
    "C13": DD + HIST,
    "C15": " decompose_for_tropical::<double-double>: Qt^T Qt = L, both inverses, determinant against the exact rational determinant, at 1e-27 x condition.",
    "C16": " Sample level: an Ok sample with the test on must satisfy the distance bound for the returned inverse and L. With the double-double scalar the tolerance boundary is decided by the low part of the distance.",
    "C19": " Semantically: the double-double scalar must come back with double-double accuracy in every relation (a detour through f64 leaves 1e-17).",
    "C03": " Liveness: Build.FairSpec |= Termination.", "C04": " Liveness: Build.FairSpec |= Termination.", "C05": " Liveness: Build.FairSpec |= Termination.",
    "C14": " Liveness: MC_Sample.MCFair |= Termination. Semantic perturbation test of every coordinate.",
    "C17": " A second validation pass without the query events judges the sample results when determinism queries were rejected first.",
}
for _k, _v in EXTRA.items():
    CHECKS[_k]["text"] = CHECKS[_k]["text"] + _v

NOT_APPLICABLE = {
    "C01": "integral identity over a continuum (mean over the hypercube = Feynman integral): a finite-state TLA+ model cannot integrate; its finite premises (C04, C06-C14) are decided separately (DESIGN.md section 6)",
}

PENDING = "machinery for this property is not built yet in this round (see DESIGN.md appendix B build order)"
ALL = ["C%02d" % i for i in range(1, 21)]
