"""Source of truth for MANIFEST.json (python3 -m vlib.mkmanifest regenerates it)."""

TB = "Trusted base: TLC 1.8 and the TLA+ modules under spec/; the Rust harness (harness/) that drives momtrop's public API only."

CHECKS = {
    "C03": dict(
        engine="tlc+replay",
        technique="TLA+ model of build_sampler (Build.tla) checked by TLC against the declarative table (TropGraph.tla); TLC-generated graphs with exact tables replayed into the real build_sampler, every subset compared",
        design_ref="DESIGN.md section 4, C03",
        text="TLC checks, for every multigraph below a size bound, that the step-by-step model of the table construction (work-list component search, flag loop) yields cyclomatic number, spanning flag and omega as defined declaratively; TLC then prints graphs with their exact tables and the harness builds the real sampler (D = 1..6, random u8 labels) and compares all 2^E entries and the reported dod / L / E / weights / dimension. Model checking of the design plus replay conformance of the code is the right level: the statement is combinatorial and exact.",
        note=TB + " serde view of SampleGenerator is taken as the table's content."),
    "C04": dict(
        engine="tlc+replay",
        technique="TLA+ model of the memoised J recursion checked by TLC against the defining recursion in exact rationals; exact J tables replayed against the built sampler",
        design_ref="DESIGN.md section 4, C04",
        text="TLC checks on exact rationals that the explicit-stack model of recursive_fill_j_function computes the defining recursion for every subset, that J(full) equals the sum over all E! orderings, that all J > 0 and that edge probabilities sum to one; the generator prints J as exact n/d for every subset and the harness compares the real table (64 E ulp), re-evaluates the recursion on the stored doubles and checks the cached normalisation.",
        note=TB + " Numeric value of Gamma(dod)/prod Gamma(w) pi^(DL/2) comes from the harness' own Lanczos lnGamma (1e-11 relative)."),
    "C05": dict(
        engine="tlc+replay",
        technique="TLA+ model of the early-exit divergence check verified by TLC (Err iff some proper subset has omega <= 0); exact omega = 0 boundary instances replayed; determinism across rebuilds and processes",
        design_ref="DESIGN.md section 4, C05",
        text="TLC checks that the model returns Err exactly for graphs with a non-empty proper subset of omega <= 0 (at the first such id) and Ok with positive J otherwise; the generator marks each graph divergent or not on exact quarter-unit integers so omega = 0 occurs exactly; the harness requires is_err() == divergent, no panic, finite positive J, and byte-identical serialisation across two builds and a second process.",
        note=TB + " Sizes E in 21..63 are not explorable (2^E table)."),
}

NOT_APPLICABLE = {
    "C01": "integral identity over a continuum (mean over the hypercube = Feynman integral): a finite-state TLA+ model cannot integrate; its finite premises (C04, C06-C14) are decided separately (DESIGN.md section 6)",
}

PENDING = "machinery for this property is not built yet in this round (see DESIGN.md appendix B build order)"
ALL = ["C%02d" % i for i in range(1, 21)]
