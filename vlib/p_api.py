"""C17, C18: TLC model check of Api.tla; real API histories (threads, clones, serde round trips, rng entry point,
second process, momtrop without `log`) recorded and validated by Trace_Api; purity of the Sample machine."""
import json, os, re, subprocess, time
from . import core, p_sample, p_flow

_REJ = re.compile(r'^<<"REJECT", (\d+), "(.*)">>\s*$', re.M)
NOLOG = os.path.join(core.ROOT, "harness_nolog")


def build_nolog():
    r = subprocess.run(["cargo", "build", "--offline", "--profile", "verif"], cwd=NOLOG, env=dict(os.environ, CARGO_NET_OFFLINE="true"),
                       stdout=subprocess.PIPE, stderr=subprocess.STDOUT, text=True)
    if r.returncode != 0:
        raise core.ToolError("cargo build of harness_nolog failed:\n" + r.stdout[-3000:])
    return os.path.join(NOLOG, "target", "verif", "mtnolog")


def validate_api(trace, wd, max_rounds=10, tag="trace", prop=None, _second=True):
    core.lint_trace_file(trace)
    cur = trace
    rej = []
    states = 0
    for rnd in range(max_rounds):
        r = core.tlc("Trace_Api", core.cfg_text(spec="TSpec", postcondition="TraceAccepted"), "%s_%d" % (tag, rnd), wd, workers=1, timeout=1800,
                     coverage=False, dfs=True, env_extra={"TRACE": cur}, xmx="6g")
        states += r.distinct
        m = _REJ.search(r.out)
        if not m:
            break
        ln = int(m.group(1))
        cl = [json.loads(l) for l in open(cur) if l.strip()]
        ev = cl[ln - 1]
        # classify the objects involved
        kind = {}
        for e in cl[:ln]:
            if e["ev"] == "Build":
                kind[e["sid"]] = "process:" + e["proc"] if "proc" in e else "built"
            elif e["ev"] == "Clone":
                kind[e["sid"]] = "clone"
            elif e["ev"] == "De":
                kind[e["sid"]] = "deserialised"
        ctx = dict(ev)
        drop = [ln - 1]
        if ev["ev"] == "End":
            # find its Begin
            for j in range(ln - 2, -1, -1):
                if cl[j]["ev"] == "Begin" and cl[j]["t"] == ev["t"]:
                    ctx["begin"] = cl[j]
                    ctx["object"] = kind.get(cl[j]["sid"], "?")
                    drop.append(j)
                    break
        elif "sid" in ev:
            ctx["object"] = kind.get(ev["sid"], "?")
        rej.append({"line": ln, "event": ctx})
        cl = [e for i, e in enumerate(cl) if i not in drop]
        cur = os.path.join(wd, "%s_cut%d.ndjson" % (tag, rnd))
        core.write_lines(cur, cl)
    else:
        core.log("stopped after %d rejections; the rest of the API trace was not validated" % max_rounds)
        # rejections of one kind must not starve another: when none of them speaks about `prop`, the events of the kind that
        # was rejected are taken out and the rest of the history is judged (C17: all queries; C18: queries on objects that
        # were not deserialised)
        if prop and _second and not any(attribute(x["event"]) == prop for x in rej):
            cl = [json.loads(l) for l in open(trace) if l.strip()]
            des = {e["sid"] for e in cl if e["ev"] == "De"}
            keep = [e for e in cl if not (e["ev"] == "Query" and (prop == "C17" or e.get("sid") not in des))]
            cut = os.path.join(wd, "%s_noquery.ndjson" % tag)
            core.write_lines(cut, keep)
            core.log("second pass without the %d query events of the rejected kind" % (len(cl) - len(keep)))
            rej2, st2 = validate_api(cut, wd, max_rounds, tag + "_nq", prop, _second=False)
            rej += rej2
            states += st2
    return rej, states


def attribute(ctx):
    if ctx.get("object") == "deserialised":
        return "C18"
    if ctx["ev"] == "Query" and ctx.get("object") == "built":
        return "C05"
    return "C17"


def run(prop, tier, seed, replay=None):
    t0 = time.time()
    wd = core.workdir(prop)
    core.cargo_build()
    nolog = build_nolog()
    # 1. specification: API histories, and purity of the sampling machine
    consts = (dict(Sids={1, 2, 3}, Origins={1, 2}, Args={1, 2}, Threads={1, 2}, Blobs={1}, Digests={1, 2}) if tier == "quick" else
              dict(Sids={1, 2, 3}, Origins={1, 2}, Args={1, 2}, Threads={1, 2, 3}, Blobs={1}, Digests={1, 2}))
    cfg = core.cfg_text(spec="ASpec", constants=consts, invariants=["ATypeOK", "MemoSound", "RoundTrip"], properties=["Immutable", "MemoStable"])
    r = core.tlc("MC_Api", cfg, "mc_api", wd, workers=12, timeout=900 if tier == "quick" else 10800)
    if r.violated:
        raise core.ToolError("MC_Api violates " + r.violated)
    core.require_coverage(r, ["Build", "Clone", "Serialize", "Deserialize", "Begin", "End"], "Api")
    r2, consts2 = p_flow.mc_sample("C17", tier, wd)     # PureCalls: the sampler is never written by a call
    # hidden state keyed by identity vs. by address (ApiSlots): the sound design passes, the unsound one must be refuted
    slots = {}
    for keyed in ("origin", "address"):
        rs = core.tlc("MC_ApiSlots", core.cfg_text(spec="SSpec", constants=dict(Sids={1, 2}, Origins={1, 2}, Slots={1, 2}, KEYED='"%s"' % keyed),
                                                   invariants=["QuerySound"]), "mc_slots_" + keyed, wd, workers=2, timeout=300, coverage=False)
        slots[keyed] = {"states": rs.distinct, "violated": rs.violated}
    if slots["origin"]["violated"] or not slots["address"]["violated"]:
        raise core.ToolError("ApiSlots: expected the origin-keyed memo to be sound and the address-keyed one to be refuted: %s" % slots)
    # 2. histories on the real code
    path, runs, gstates, nlines = p_sample.gen_routing(tier, wd, seed)
    # plus Gen_Table graphs (disconnected ones included: G(3,3), G(4,3), G(4,4) slices), interleaved
    import random
    rnd = random.Random(seed + 3)
    tpath = os.path.join(wd, "tgraphs.ndjson")
    open(tpath, "w").close()
    for i, c_ in enumerate([dict(V=3, EMIN=3, EMAX=3, WSET={4, 6, 8}, WD=4, DSET={1, 2, 3}, EXTV=3, STRIDE=101, OFFSET=rnd.randrange(101)),
                            dict(V=4, EMIN=3, EMAX=3, WSET={4, 6}, WD=4, DSET={1, 3}, EXTV=3, STRIDE=61, OFFSET=rnd.randrange(61))]):
        core.tlc("Gen_Table", core.cfg_text(constants=c_, invariants=["Emit"]), "gen_t_%d" % i, wd, workers=12, timeout=3600, coverage=False, replay_to=tpath)
    # weights down to 2^-28: table entries (J) of order 1e17 and beyond
    tiny = os.path.join(wd, "tiny.ndjson")
    open(tiny, "w").close()
    core.tlc("Gen_TableRand", core.cfg_text(constants=dict(V=3, EMIN=3, EMAX=4, WSET={1, 1, 268435456, 402653184}, WD=268435456, DSET={1, 2}, EXTV=3, NSAMP=300),
                                            invariants=["Emit"]), "gen_tiny", wd, workers=12, timeout=1800, coverage=False, replay_to=tiny, seed=seed)
    # non-dyadic weights on 7 labels: subsets with three and more components (order-dependent float sums)
    core.tlc("Gen_TableRand", core.cfg_text(constants=dict(V=7, EMIN=6, EMAX=7, WSET={16, 20, 28, 32}, WD=12, DSET={1, 2}, EXTV=7, NSAMP=400),
                                            invariants=["Emit"]), "gen_thirds", wd, workers=12, timeout=1800, coverage=False, replay_to=tiny, seed=seed + 1)
    tinyl = [l for l in open(tiny) if '"div":false' in l and '"L":0' not in l and json.loads(l)["dod"] > 0]
    tinyl = [l for l in tinyl if json.loads(l)["g"]["wd"] > 1000][:3] + [l for l in tinyl if json.loads(l)["g"]["wd"] == 12][:3]
    tl = [l for l in open(tpath) if '"div":false' in l and '"L":0' not in l]
    disc = [l for l in tl if json.loads(l)["l"][-1] > 0 and _disconnected(json.loads(l))]
    rl = [l for l in open(path)]
    # the routing lines come sorted by size (a run of tadpoles first): deal them round-robin over (edges, externals or not) so
    # that the origins actually used cover one- and two-edge graphs with externals, vacuum graphs and the larger topologies
    groups = {}
    for l in rl:
        o = json.loads(l)
        groups.setdefault((len(o["g"]["edges"]), len(o["g"]["ext"]) > 0, any(a == b for a, b in o["g"]["edges"]), any(o["g"]["mass"])), []).append(l)
    keys = sorted(groups)
    rl = []
    while any(groups[k] for k in keys):
        for k in keys:
            if groups[k]:
                rl.append(groups[k].pop(0))
    mixed = os.path.join(wd, "origins.ndjson")
    with open(mixed, "w") as f:
        # head of the file (always used): disconnected accepted graphs first, then other table graphs, then routing lines
        nhead = 3 if tier == "quick" else 12
        for l in disc[:nhead] + tinyl + tl[:max(1, nhead // 3)]:
            f.write(l)
        for l in rl:
            f.write(l)
    path = mixed
    trace = os.path.join(wd, "api.ndjson")
    s = core.mt("record-api", path, os.path.join(wd, "sum.json"), seed,
                {"trace": trace, "nolog": nolog, "origins": 28 if tier == "quick" else 80, "args": 4 if tier == "quick" else 8,
                 "threads": 8 if tier == "quick" else 16, "calls": 1500 if tier == "quick" else 10000})
    if s["counters"].get("process_nolog", 0) != 1 or s["counters"].get("process_second-process", 0) != 1:
        raise core.ToolError("the second process / the nolog binary did not run: %s" % s["notes"])
    rej, tstates = validate_api(trace, wd, prop=prop)
    violations = list(s["violations"])
    # 3. mode R: histories generated by TLC from Api.tla (-simulate), executed on real objects, validated again
    hpath = os.path.join(wd, "histories.ndjson")
    open(hpath, "w").close()
    hc = dict(Sids={1, 2, 3, 4, 5, 6}, Origins={1, 2, 3}, Args={1, 2, 3}, Threads={1, 2, 3, 4}, Blobs={1, 2}, Digests={1}, DEPTH=30)
    nh = 200 if tier == "quick" else 5000
    hg = core.tlc("Gen_ApiHistory", core.cfg_text(spec="HSpec", constants=hc, invariants=["Emit"]), "gen_hist", wd, workers=4, timeout=600,
                  simulate=max(50, nh // 20), depth=32, coverage=False, replay_to=hpath, seed=seed, allow_timeout=True)
    htrace = os.path.join(wd, "hist_trace.ndjson")
    hs = core.mt("replay-api-history", hpath, os.path.join(wd, "hist.json"), seed, {"origins": path, "max": nh, "trace": htrace})
    violations += hs["violations"]
    if hs["nontrivial"] < 20:
        raise core.ToolError("vacuity guard: only %d TLC-generated histories executed" % hs["nontrivial"])
    hrej, hstates = validate_api(htrace, os.path.join(wd), tag="hist", prop=prop)
    rej = rej + hrej
    tstates += hstates
    for x in rej:
        p = attribute(x["event"])
        violations.append({"property": p, "what": "API history rejected by Trace_Api at %s" % json.dumps(x["event"])[:400],
                           "instance": {"event": x["event"]}, "detail": {"runner": "trace-api", "object": x["event"].get("object")}})
    if replay:
        mine = [v for v in violations if v["property"] == prop]
        print(("VIOLATION property=%s replay=%s" % (prop, replay)) if mine else ("OK property=%s (replay: history re-recorded)" % prop))
        return 1 if mine else 0
    cov = {
        "states": r.distinct + r2.distinct + tstates, "transitions": r.generated + r2.generated,
        "traces_validated_against_impl": (1 + hs["nontrivial"]) if not rej else 0,
        "histories_generated_by_tlc_and_executed": hs["nontrivial"],
        "samples": s["samples"][:3],
        "evaluations": s["evaluations"], "distinct_nontrivial": s["nontrivial"],
        "rule": "one history per run: for each of N origins (Gen_Routing graph x routing) build twice, clone, serialise to JSON text and to "
                "serde_json::Value, deserialise, query; every object x every argument x settings variants sequentially, generate_sample_from_rng "
                "with a counting RNG, then 8-16 threads sampling shared objects concurrently, a second OS process, and momtrop built without `log`; "
                "evaluations = sample calls; non-trivial = origins",
        "exhaustive": False,
        "tlc_models": [{"module": "MC_Api", "constants": {k: sorted(v) for k, v in consts.items()}, "states": r.distinct, "action_counts": r.coverage},
                       {"module": "MC_Sample (PureCalls)", "states": r2.distinct},
                       {"module": "MC_ApiSlots (memo keyed by origin: sound; keyed by address: refuted, as it must be)", "result": slots}],
        "trace_validation": {"module": "Trace_Api", "events": s["events"], "rejected": len(rej)},
        "harness_counters": s["counters"],
        "mutable_state_inventory": inventory(),
        "trusted_base": ["TLC 1.8", "FNV digest over all result bits (NaN-normalised)", "serde_json with float_roundtrip"],
    }
    return core.finish(prop, tier, seed, "model_checking", cov,
                       ["thread interleavings are those the OS scheduler produced in this run; the model quantifies over all of them"],
                       t0, violations, {"runner": "trace-api", "seed": seed})


def _disconnected(line):
    """more than one connected component among the edges (union-find on the vertex labels)"""
    es = line["g"]["edges"]
    par = {}
    def find(x):
        while par.setdefault(x, x) != x:
            par[x] = par[par[x]]; x = par[x]
        return x
    for a, b in es:
        par[find(a)] = find(b)
    return len({find(v) for e in es for v in e}) > 1


def inventory():
    """advisory: places in the crate that could hold mutable shared state (no verdict)"""
    out = {}
    for pat in ["static mut", "static ", "OnceLock", "OnceCell", "lazy_static", "thread_local", "RefCell", "Cell<", "Mutex", "RwLock", "Atomic", "unsafe"]:
        try:
            r = subprocess.run(["grep", "-rn", "--include=*.rs", pat, "/repo/src"], stdout=subprocess.PIPE, text=True)
            hits = [l for l in r.stdout.splitlines() if "#[cfg(test)]" not in l and "SHREK" not in l]
            if hits:
                out[pat] = len(hits)
        except Exception:
            pass
    return out
