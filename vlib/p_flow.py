"""C13, C14, C19 (and the trace part of C06): TLC model check of the Sample machine; executions of the
real generic sampler recorded with the tracking scalar and validated by Trace_Sample."""
import json, os, random, re, time
from . import core, p_table

MC_ACTIONS = ["PickSkeleton", "PickGraph", "A_PickEdge", "A_LastEdge", "A_Assign", "A_DrawXi", "A_Rescale",
              "A_DecompOk", "A_DecompErr", "A_LambdaOk", "A_LambdaErr", "A_BoxMullerA", "A_BoxMullerB", "A_UVectors", "A_VPoly",
              "A_Momenta", "A_Jacobian", "A_Return"]
MC_INVS = {
    "C06": ["I_TypeOK", "I_SectorTotal", "I_RolesOK", "I_ReadsAtExit"],
    "C13": ["I_TypeOK", "I_BoxMullerMap", "I_RolesOK", "I_Independent"],
    "C14": ["I_TypeOK", "I_RolesOK", "I_ReadsAtExit", "I_Independent", "I_OutDepsOK"],
    "C19": ["I_TypeOK", "I_NarrowOnlyLambda", "I_LogsOK"],
    "C07": ["I_TypeOK", "I_SectorFormula", "I_FlagsOK", "I_FlagsComplete", "I_RescaleNormalises"],
    "C11": ["I_TypeOK", "I_RescaleNormalises", "I_FlagsComplete", "I_OutDepsOK"],
    "C17": ["I_TypeOK", "I_LogsOK"],
}
TRACE_INVS = ["TI_Roles", "TI_Reads", "TI_Indep", "TI_BM", "TI_Narrow", "TI_Sector", "TI_Flags", "TI_Logs", "TI_OutDeps", "TI_Kin"]


def mc_sample(prop, tier, wd):
    if tier == "quick":
        consts = dict(V=2, EMIN=1, EMAX=3, WSET={2, 4}, WD=4, DSET={1, 2, 3}, EXTV=2)
        timeout = 600
    else:
        consts = dict(V=3, EMIN=1, EMAX=3, WSET={2, 4}, WD=4, DSET={1, 2, 3}, EXTV=2)
        timeout = 7200
    props = ["PureCalls"]
    cfg = core.cfg_text(spec="MCSpec", constants=consts, invariants=MC_INVS[prop], properties=props)
    r = core.tlc("MC_Sample", cfg, "mc_sample", wd, workers=12, timeout=timeout)
    if r.violated:
        raise core.ToolError("specification-level check failed: MC_Sample violates %s\n%s" % (r.violated, r.out[-2000:]))
    core.require_coverage(r, MC_ACTIONS, "Sample")
    # every call returns: for every uniform number an edge is selected in each sector step and the tail runs to an outcome
    lc = dict(consts, EMAX=2) if tier == "quick" else dict(consts, V=2)
    core.liveness("MC_Sample", "MCFair", lc, "Termination", "mc_sample_live", wd)
    return r, consts


def apalache_readcounter(wd):
    """unbounded complement for C14: inductive invariant of the read cursor for all E >= 1, NG >= 0 (3 obligations)"""
    import subprocess, shutil
    spec = os.path.join(core.SPEC, "apalache", "ReadCounter.tla")
    obl = [["--init=Init", "--inv=IndInv", "--length=0"], ["--init=IndInit", "--inv=IndInv", "--length=1"], ["--init=IndInit", "--inv=Post", "--length=0"]]
    done = 0
    t = time.time()
    for i, o in enumerate(obl):
        od = os.path.join(wd, "apalache_%d" % i)
        try:
            r = subprocess.run(["timeout", "600", "apalache-mc", "check", "--cinit=ConstInit", "--out-dir=" + od] + o + [spec],
                               stdout=subprocess.PIPE, stderr=subprocess.STDOUT, text=True, cwd=os.path.dirname(spec))
        except FileNotFoundError:
            return {"available": False}
        shutil.rmtree(od, ignore_errors=True)
        if "EXITCODE: OK" in r.stdout:
            done += 1
        elif "EXITCODE: ERROR (12)" in r.stdout or "violat" in r.stdout.lower():
            raise core.ToolError("Apalache: obligation %d of ReadCounter.tla fails (specification-level inconsistency)\n%s" % (i, r.stdout[-1500:]))
    return {"available": True, "obligations": len(obl), "discharged": done, "wall_s": round(time.time() - t, 1),
            "statement": "for all E >= 1, NG >= 0: Ok => reads = 2E-1+NG+(NG mod 2); matrix error => 2E-2; Gamma error => 2E-1"}


KIN_PROP = {"v": "C09", "jac": "C11", "mom": "C10", "shift": "C10"}


def attribute(ev, run=None):
    """which property does a rejected trace event speak about (run: the events of the call, Reset first)"""
    e = ev.get("ev")
    if e == "Out" and run and run[0].get("kin"):
        # the kinematic arguments that flow into the quantity are not those of its definition (Sample!KinMasses / KinShifts)
        rs, name = run[0], ev.get("name")
        ne = len(rs["g"]["edges"])
        want_m = set(rs.get("margs", [])) if name in ("v", "jac", "mom") else set()
        alle = set(range(1, ne + 1))
        smin = alle if name in ("v", "jac", "mom") else (set(rs.get("loopedges", [])) if name == "shift" else set())
        smax = alle if name == "shift" else smin
        got_s = set(ev.get("shifts", []))
        if set(ev.get("masses", [])) != want_m or not (smin <= got_s <= smax):
            return KIN_PROP.get(name, "C14")
    if e == "Read":
        # an edge-choice coordinate (it carries its lattice value): the choice made does not fit the exact cumulative sums
        if ev.get("uden", 0) != 0 and not ev.get("narrow"):
            return "C06"
        if ev.get("narrow"):
            return "C19" if ev.get("coord", 0) < 0 else "C14"
        return "C14"
    if e in ("Narrow", "Widen"):
        return "C19"
    if e == "Q":
        return "C13"
    if e == "Out":
        return "C14"
    if e == "Ret":
        if str(ev.get("out", "")).startswith("Panic") and "sample edge" in str(ev.get("out")):
            return "C06"
        return "C14"
    return "C14"


_REJ = re.compile(r'^<<"REJECT", (\d+), "(.*)">>\s*$', re.M)


def _validate_chunk(path, wd, name, module, invs):
    cfg = core.cfg_text(spec="TSpec", invariants=invs, constraint="Track", postcondition="TraceAccepted")
    r = core.tlc(module, cfg, name, wd, workers=1, timeout=1800, coverage=False, dfs=True, env_extra={"TRACE": path}, xmx="2g")
    m = _REJ.search(r.out)
    if r.violated and r.violated != "postcondition" and not m:
        return r, {"invariant": r.violated}
    if not m:
        return r, None
    return r, {"line": int(m.group(1)), "event": json.loads(core.unquote_tla_string(m.group(2)))}


def validate(trace_path, wd, name="trace", max_rounds=4, module="Trace_Sample", invs=TRACE_INVS, chunks=12):
    """Validate an ndjson trace made of independent runs (each starts with a Reset event).  The runs are dealt into
    `chunks` files validated by parallel TLC processes; a chunk stops at its first rejected run, which is recorded, cut
    out, and the chunk is validated again (up to max_rounds times), so that rejections of one kind do not hide others.
    Returns (accepted_runs, rejections, tlc_states, tlc_generated)."""
    from concurrent.futures import ThreadPoolExecutor
    core.lint_trace_file(trace_path)
    runs, cur = [], []
    for l in open(trace_path):
        if not l.strip():
            continue
        if '"ev":"Reset"' in l.replace(" ", "") and cur:
            runs.append(cur); cur = []
        cur.append(l)
    if cur:
        runs.append(cur)
    nchunks = max(1, min(chunks, len(runs) // 20 or 1))
    groups = [runs[i::nchunks] for i in range(nchunks)]
    rejections, states, gen = [], 0, 0
    pending = list(range(nchunks))
    unvalidated = 0
    for rnd in range(max_rounds):
        if not pending:
            break
        paths = {}
        for ci in pending:
            pth = os.path.join(wd, "%s_c%d_r%d.ndjson" % (name, ci, rnd))
            with open(pth, "w") as f:
                for run in groups[ci]:
                    f.writelines(run)
            paths[ci] = pth
        with ThreadPoolExecutor(max_workers=min(8, len(pending))) as ex:
            futs = {ci: ex.submit(_validate_chunk, paths[ci], wd, "%s_c%d_r%d" % (name, ci, rnd), module, invs) for ci in pending}
            results = {ci: f.result() for ci, f in futs.items()}
        nxt = []
        for ci in pending:
            r, rej = results[ci]
            states += r.distinct; gen += r.generated
            if rej is None:
                continue
            if "invariant" in rej:
                rejections.append({"line": None, "event": {"ev": "Invariant", "name": rej["invariant"]}, "run": None})
                continue
            # locate the run containing that line of the chunk file
            ln, acc = rej["line"], 0
            for k, run in enumerate(groups[ci]):
                if acc < ln <= acc + len(run):
                    rejections.append({"line": ln, "event": rej["event"], "run": [json.loads(x) for x in run]})
                    del groups[ci][k]
                    break
                acc += len(run)
            if groups[ci]:
                nxt.append(ci)
        pending = nxt
    else:
        unvalidated = sum(len(groups[ci]) for ci in pending)
        if unvalidated:
            core.log("stopped after %d rounds; %d runs in still-rejecting chunks were not validated again" % (max_rounds, unvalidated))
    return len(runs) - len(rejections) - unvalidated, rejections, states, gen


def gen_graphs(tier, wd, seed):
    rnd = random.Random(seed + 5)
    path = os.path.join(wd, "graphs.ndjson")
    open(path, "w").close()
    if tier == "quick":
        runs = [dict(V=3, EMIN=2, EMAX=3, WSET={3, 4, 6, 8}, WD=4, DSET=set(rnd.sample([1, 2, 3, 4, 5, 6], 3)), EXTV=3, STRIDE=211, OFFSET=rnd.randrange(211)),
                dict(V=3, EMIN=4, EMAX=4, WSET={4, 6}, WD=4, DSET={rnd.choice([1, 2, 3])}, EXTV=3, STRIDE=499, OFFSET=rnd.randrange(499))]
    else:
        runs = [dict(V=3, EMIN=2, EMAX=3, WSET={2, 3, 4, 6, 8}, WD=4, DSET={1, 2, 3, 4, 5, 6}, EXTV=4, STRIDE=2111, OFFSET=rnd.randrange(2111)),
                dict(V=3, EMIN=4, EMAX=4, WSET={3, 4, 6}, WD=4, DSET={1, 2, 3, 4}, EXTV=3, STRIDE=4999, OFFSET=rnd.randrange(4999))]
    st = 0
    # larger random multigraphs first (the recorder takes graphs in file order after its own shuffle of equal-size classes)
    rc = dict(V=5, EMIN=5, EMAX=6, WSET={6, 8, 10, 12}, WD=4, DSET={1, 2, 3}, EXTV=5, NSAMP=120 if tier == "quick" else 1500)
    r = core.tlc("Gen_TableRand", core.cfg_text(constants=rc, invariants=["Emit"]), "gen_rand", wd, workers=12, timeout=3600, coverage=False,
                 replay_to=path, seed=seed)
    st += r.distinct
    for i, c in enumerate(runs):
        r = core.tlc("Gen_Table", core.cfg_text(constants=c, invariants=["Emit"]), "gen_%d" % i, wd, workers=12,
                     timeout=3600, coverage=False, replay_to=path)
        st += r.distinct
    return path, runs + [dict(rc, MODE="random")], st


def run(prop, tier, seed, replay=None):
    t0 = time.time()
    wd = core.workdir(prop)
    core.cargo_build()
    if replay:
        rp = json.load(open(replay))
        if rp["instance"].get("dd"):
            from . import p_sample
            return p_sample.run(prop, tier, seed, replay)
        src = os.path.join(wd, "replay_in.ndjson")
        core.write_lines(src, rp["instance"]["run"][:1])
        tp = os.path.join(wd, "replay.ndjson")
        core.mt("replay-flow", src, os.path.join(wd, "replay_sum.json"), rp.get("seed", seed), {"trace": tp})
        acc, rej, st, gn = validate(tp, wd, "replay")
        mine = [r for r in rej if attribute(r["event"], r.get("run")) == prop]
        print(("VIOLATION property=%s replay=%s" % (prop, replay)) if mine else ("OK property=%s (replay)" % prop))
        return 1 if mine else 0
    r, consts = mc_sample(prop, tier, wd)
    apa = apalache_readcounter(wd) if prop == "C14" else None
    gpath, gruns, gstates = gen_graphs(tier, wd, seed)
    trace = os.path.join(wd, "trace.ndjson")
    ngraphs = 600 if tier == "quick" else 4000
    s = core.mt("record-flow", gpath, os.path.join(wd, "sum.json"), seed,
                {"trace": trace, "graphs": ngraphs, "runs": 4 if tier == "quick" else 6})
    if s["evaluations"] < 100:
        raise core.ToolError("vacuity guard: only %d executions recorded" % s["evaluations"])
    acc, rej, tstates, tgen = validate(trace, wd)
    violations = list(s.get("violations", []))
    other = {}
    for x in rej:
        p = attribute(x["event"], x.get("run"))
        v = {"property": p, "what": "recorded execution is not a behaviour of the Sample specification: first unmatched event %s"
             % json.dumps(x["event"])[:300], "instance": {"run": x["run"]}, "detail": {"event": x["event"], "line": x["line"]}}
        violations.append(v)
        if p != prop:
            other[p] = other.get(p, 0) + 1
    if other:
        core.log("rejections attributed to other properties (reported by their own checks):", other)
    ddc = None
    if prop == "C19":
        # semantically: a double-double user type really gets double-double accuracy in L, the factorisation, u, v, momenta, jacobian
        from . import p_sample
        rpath, rruns, rst, rn = p_sample.gen_routing(tier, wd, seed)
        ddv, ddc = p_sample.dd_part(prop, tier, wd, seed, rpath)
        violations += ddv
        s["counters"]["violations_C19"] = s["counters"].get("violations_C19", 0) + ddc.get("violations_C19", 0)
    cov = {
        "states": r.distinct + tstates, "transitions": r.generated + tgen,
        "traces_validated_against_impl": acc,
        "samples": s["samples"][:2],
        "evaluations": s["evaluations"], "distinct_nontrivial": s["nontrivial"],
        "rule": "graphs: accepted graphs printed by Gen_Table (>= 1 loop, dod > 0), seeded selection; per graph several executions of the "
                "real generate_sample_from_x_space_point::<Tr> with random settings (stability test, debug, metadata), edge-choice coordinates "
                "on the lattice k/1024, 3 surplus coordinates every other run; non-trivial = graph with >= 3 edges",
        "exhaustive": False,
        "tlc_model": {"module": "MC_Sample", "constants": {k: (sorted(v) if isinstance(v, set) else v) for k, v in consts.items()},
                      "invariants": MC_INVS[prop], "action_counts": r.coverage, "states": r.distinct, "wall_s": round(r.wall, 1)},
        "trace_validation": {"module": "Trace_Sample", "events": s["events"], "runs": s["evaluations"], "accepted_runs": acc,
                             "rejected_runs": len(rej), "rejections_other_properties": other, "invariants_on_trace": TRACE_INVS,
                             "tlc_states": tstates},
        "harness_counters": s["counters"],
        "double_double_scalar": ddc,
        "apalache_inductive_invariant": apa,
        "trusted_base": ["TLC 1.8", "harness tracking scalar Tr (implements momtrop's public MomTropFloat trait)"],
    }
    assumptions = ["dependencies are data dependencies recorded by the tracking scalar in the executions explored; control dependence on the "
                   "edge-choice coordinates is observed through the comparison events",
                   "lambda's provenance is cut by the f64 round trip (the narrowing event itself is what is checked)"]
    return core.finish(prop, tier, seed, "model_checking", cov, assumptions, t0, violations, {"runner": "trace-sample", "seed": seed})
