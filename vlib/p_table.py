"""C03, C04, C05: TLC model check of Build against TropGraph; Gen_Table behaviours replayed into
the real build_sampler (every subset compared)."""
import json, os, random, time
from . import core

MC_ACTIONS = ["PickSkeleton", "PickGraph", "FromGraph", "BfsIter", "FillFlags", "JStart", "JEnterEmpty",
              "JMemoHit", "JPush", "JAccumulate", "JPop", "Cache"]
INVS = {
    "C03": ["TypeOK", "TableCorrect", "PrefixCorrect", "BfsCorrect", "BfsPartial"],
    "C04": ["TypeOK", "JCorrect", "MemoSound", "ProbSumOne"],
    "C05": ["TypeOK", "RejectIff", "FirstDivergent", "TableCorrect"],
}


def mc_build(prop, tier, wd, seed):
    if tier == "quick":
        consts = dict(V=2, EMIN=1, EMAX=3, WSET={2, 4, 6}, WD=4, DSET={1, 3}, EXTV=3)
        timeout = 600
    else:
        consts = dict(V=3, EMIN=1, EMAX=3, WSET={2, 4}, WD=4, DSET={1, 3}, EXTV=3)
        timeout = 7200
    cfg = core.cfg_text(constants=consts, invariants=INVS[prop], properties=["OracleConst"],
                        overrides={"Skeletons": "MCSkeletons", "Decorate": "MCDecorate"})
    r = core.tlc("MC_Build", cfg, "mc_build", wd, workers=12, timeout=timeout)
    if r.violated:
        raise core.ToolError("specification-level check failed: MC_Build violates %s (the model, not the code, is "
                             "inconsistent)\n%s" % (r.violated, r.out[-2000:]))
    core.require_coverage(r, MC_ACTIONS, "Build")
    # every build ends in done or err: the work-list search, the flag loop and the J stack machine all terminate
    lc = dict(consts, EMAX=2) if tier == "quick" else dict(consts, V=2)
    core.liveness("MC_Build", "FairSpec", lc, "Termination", "mc_build_live", wd,
                  overrides={"Skeletons": "MCSkeletons", "Decorate": "MCDecorate"})
    return r, consts


def gen_runs(tier, seed):
    rnd = random.Random(seed)
    runs = []
    if tier == "quick":
        # all of G(2,1..2) with a small decoration set, a seeded slice of G(3,3), thirds
        runs.append(dict(V=2, EMIN=1, EMAX=2, WSET={2, 3, 4, 6}, WD=4, DSET={1, 2, 3, 4}, EXTV=3, STRIDE=1, OFFSET=0))
        ws = set(rnd.sample([2, 3, 4, 6], 2)) | {8}      # always an integer weight >= 2
        ds = set(rnd.sample([1, 2, 3, 4, 5, 6], 2))
        stride = 97
        runs.append(dict(V=3, EMIN=3, EMAX=3, WSET=ws, WD=4, DSET=ds, EXTV=4, STRIDE=stride, OFFSET=rnd.randrange(stride)))
        runs.append(dict(V=3, EMIN=2, EMAX=3, WSET={8, 12, 16}, WD=12, DSET={rnd.choice([1, 2, 3, 4])}, EXTV=3, STRIDE=41,
                         OFFSET=rnd.randrange(41)))
        runs.append(dict(V=3, EMIN=4, EMAX=4, WSET={4, 6}, WD=4, DSET={rnd.choice([1, 2, 3])}, EXTV=3, STRIDE=997,
                         OFFSET=rnd.randrange(997)))
        # four vertex labels: forests, two disjoint components, externals spread over components
        runs.append(dict(V=4, EMIN=2, EMAX=2, WSET={2, 3, 4, 6}, WD=4, DSET={1, 2, 3, 4}, EXTV=4, STRIDE=41, OFFSET=rnd.randrange(41)))
        runs.append(dict(V=4, EMIN=3, EMAX=3, WSET=set(rnd.sample([2, 3, 4, 6], 2)), WD=4, DSET={rnd.choice([1, 2, 3, 4])}, EXTV=4,
                         STRIDE=101, OFFSET=rnd.randrange(101)))
    else:
        runs.append(dict(V=3, EMIN=1, EMAX=2, WSET={2, 3, 4, 6, 8}, WD=4, DSET={1, 2, 3, 4, 5, 6}, EXTV=4, STRIDE=1, OFFSET=0))
        stride = 23
        runs.append(dict(V=3, EMIN=3, EMAX=3, WSET={2, 3, 4, 6, 8}, WD=4, DSET={1, 2, 3, 4, 5, 6}, EXTV=4, STRIDE=stride,
                         OFFSET=rnd.randrange(stride)))
        runs.append(dict(V=3, EMIN=2, EMAX=3, WSET={8, 12, 16, 20}, WD=12, DSET={1, 2, 3, 4}, EXTV=4, STRIDE=29,
                         OFFSET=rnd.randrange(29)))
        runs.append(dict(V=3, EMIN=4, EMAX=4, WSET={3, 4, 6}, WD=4, DSET={1, 2, 3, 4}, EXTV=3, STRIDE=499,
                         OFFSET=rnd.randrange(499)))
        runs.append(dict(V=4, EMIN=2, EMAX=3, WSET={2, 3, 4, 6, 8}, WD=4, DSET={1, 2, 3, 4}, EXTV=4, STRIDE=199, OFFSET=rnd.randrange(199)))
        runs.append(dict(V=4, EMIN=4, EMAX=4, WSET={2, 4, 6}, WD=4, DSET={1, 3}, EXTV=4, STRIDE=4001, OFFSET=rnd.randrange(4001)))
        # (5-edge graphs and beyond come from Gen_TableRand below: enumerating their decorations takes hours)
    return runs


def generate(tier, wd, seed, fname="table.ndjson"):
    path = os.path.join(wd, fname)
    open(path, "w").close()
    gen_states = 0
    runs = gen_runs(tier, seed)
    for i, c in enumerate(runs):
        cfg = core.cfg_text(constants=c, invariants=["Emit"])
        r = core.tlc("Gen_Table", cfg, "gen_table_%d" % i, wd, workers=12, timeout=3600 if tier != "quick" else 900,
                     coverage=False, replay_to=path)
        if r.violated:
            raise core.ToolError("generator failed: " + r.out[-1500:])
        gen_states += r.distinct
    # larger multigraphs than the enumeration reaches: random draws (5..8 edges, up to 6 labels) and the named catalogue
    rruns = ([dict(V=5, EMIN=5, EMAX=7, WSET={6, 8, 10, 12}, WD=4, DSET={1, 2, 3}, EXTV=5, NSAMP=150),
              dict(V=6, EMIN=8, EMAX=8, WSET={8, 10, 12}, WD=4, DSET={1, 2}, EXTV=6, NSAMP=12),
              dict(V=7, EMIN=9, EMAX=10, WSET={6, 8, 9, 10, 12}, WD=4, DSET={1, 2}, EXTV=7, NSAMP=6)] if tier == "quick" else
             [dict(V=5, EMIN=5, EMAX=7, WSET={6, 8, 10, 12}, WD=4, DSET={1, 2, 3, 4}, EXTV=5, NSAMP=3000),
              dict(V=6, EMIN=8, EMAX=9, WSET={8, 10, 12}, WD=4, DSET={1, 2, 3}, EXTV=6, NSAMP=150),
              dict(V=7, EMIN=10, EMAX=11, WSET={6, 8, 9, 10, 12}, WD=4, DSET={1, 2}, EXTV=7, NSAMP=30)])
    # non-dyadic weights on up to 7 labels (subsets with three and more components: float sums whose value depends on
    # the order of summation) and weights down to 2^-28 (numerical range)
    rruns.append(dict(V=7, EMIN=5, EMAX=7, WSET={4, 8, 16, 20, 28}, WD=12, DSET={1, 2}, EXTV=7, NSAMP=60 if tier == "quick" else 1500))
    rruns.append(dict(V=3, EMIN=2, EMAX=3, WSET={1, 134217728, 268435456}, WD=268435456, DSET={1, 2}, EXTV=3, NSAMP=150 if tier == "quick" else 3000))
    for i, c in enumerate(rruns):
        r = core.tlc("Gen_TableRand", core.cfg_text(constants=c, invariants=["Emit"]), "gen_rand_%d" % i, wd, workers=12, timeout=3600,
                     coverage=False, replay_to=path, seed=seed + i)
        gen_states += r.distinct
        runs.append(dict(c, MODE="random"))
    cat = dict(MODE='"cat"', V=3, EMIN=1, EMAX=7, LMIN=1, LMAX=5, WSET={4, 5, 6, 8, 10}, WD=4, DSET={1, 2, 3, 4, 5, 6}, PK=1, MSET={0, 1},
               NROUT=1, NSAMP=8 if tier == "quick" else 80, STRIDE=1, OFFSET=0, NSK=1)
    r = core.tlc("Gen_Routing", core.cfg_text(constants=cat, invariants=["Emit"]), "gen_cat", wd, workers=12, timeout=3600, coverage=False,
                 replay_to=path, seed=seed)
    gen_states += r.distinct
    runs.append(dict(cat, MODE="catalogue"))
    n = core.count_lines(path)
    if n < 200:
        raise core.ToolError("vacuity guard: generator emitted only %d behaviours" % n)
    return path, n, gen_states, runs


def run(prop, tier, seed, replay=None):
    t0 = time.time()
    wd = core.workdir(prop)
    core.cargo_build()
    if replay:
        rp = json.load(open(replay))
        if "size_limit" in rp["instance"]:
            sl = core.mt("size-limits", None, os.path.join(wd, "size.json"), seed, {"max_e": 12})
            known = core.load_known()
            new = [v for v in sl["violations"] if v["property"] == prop and not core.match_known(prop, v, known)]
            print(("VIOLATION property=%s replay=%s" % (prop, replay)) if new else ("OK property=%s (replay)" % prop))
            return 1 if new else 0
        if "line" not in rp["instance"]:
            from . import p_sample
            return p_sample.run(prop, tier, seed, replay)
        inp = os.path.join(wd, "replay.ndjson")
        core.write_lines(inp, [rp["instance"]["line"]])
        s = core.mt("replay-table", inp, os.path.join(wd, "sum.json"), rp.get("seed", seed),
                    {"base_idx": rp["instance"].get("idx", 0)})
        bad = [v for v in s["violations"] if v["property"] == prop]
        for v in bad:
            print("VIOLATION property=%s replay=%s" % (prop, replay))
            core.log("  ", v["what"], json.dumps(v["detail"])[:600])
        if not bad:
            print("OK property=%s (replay)" % prop)
        return 1 if bad else 0
    r, consts = mc_build(prop, tier, wd, seed)
    path, n, gen_states, runs = generate(tier, wd, seed)
    s = core.mt("replay-table", path, os.path.join(wd, "sum.json"), seed)
    if prop == "C05":
        # documented size limits: E = 1..12 (16) bundles / chains, and MAX_EDGES itself
        sl = core.mt("size-limits", None, os.path.join(wd, "size.json"), seed, {"max_e": 12 if tier == "quick" else 16})
        s["violations"] += sl["violations"]
        s["evaluations"] += sl["evaluations"]
        for k, v in sl["counters"].items():
            s["counters"][k] = s["counters"].get(k, 0) + v if k.startswith("violations_") else v
    c = s["counters"]
    if c.get("accepted_by_spec", 0) < 50 or c.get("divergent", 0) < 50:
        raise core.ToolError("vacuity guard: accepted=%s divergent=%s" % (c.get("accepted_by_spec"), c.get("divergent")))
    cov = {
        "states": r.distinct, "transitions": r.generated,
        "traces_validated_against_impl": s["evaluations"],
        "samples": s["samples"],
        "evaluations": s["evaluations"], "distinct_nontrivial": s["nontrivial"],
        "rule": "TLC enumerates G(v,e) (every edge sequence over unordered vertex pairs incl. self-loops x mass pattern x "
                "external set incl. untouched externals x weights x D); a graph is printed iff Hash(g) % STRIDE = OFFSET; "
                "non-trivial = accepted graph with >= 1 loop and >= 1 spanning subset; every one of the 2^E entries compared",
        "exhaustive": False,
        "tlc_model": {"module": "MC_Build", "constants": {k: (sorted(v) if isinstance(v, set) else v) for k, v in consts.items()},
                      "invariants": INVS[prop], "action_counts": r.coverage, "wall_s": round(r.wall, 1)},
        "generator": {"module": "Gen_Table", "runs": [{k: (sorted(v) if isinstance(v, set) else v) for k, v in c_.items()} for c_ in runs],
                      "behaviours_emitted": n, "generator_states": gen_states},
        "harness_counters": c,
        "trusted_base": ["TLC 1.8", "serde_json view of SampleGenerator (derived Serialize)",
                         "harness Lanczos lnGamma (numeric value of the cached factor only)"],
    }
    assumptions = ["vertex labels are mapped injectively to random u8 values; edge orientation random",
                   "weights are multiples of 1/4 (bit-exact omega) except the wd=12 family (1e-12 tolerance; omega = 0 exactly "
                   "excluded from the iff as the property allows)"]
    return core.finish(prop, tier, seed, "model_checking", cov, assumptions, t0, s["violations"],
                       {"runner": "replay-table", "seed": seed})
