"""C15, C16: TLC model check of the exact-mode Matrix machine; Gen_Chol behaviours replayed bit-exactly;
accuracy / outcome classes of random, graded, Hilbert, L-like, singular, indefinite, non-finite, scaled
matrices recorded and validated by Trace_Matrix."""
import json, os, random, re, time
from . import core

MC_ACTIONS = ["PickDim", "PickRow", "Start", "A_CholRow", "A_DetStep", "A_NMat", "A_PowerStep", "A_AltSum", "A_Finish", "A_Stability"]
INVS = ["I_CholPartial", "I_ExactOK", "I_Nilpotent", "I_ZeroDetSound", "I_OkNonSingular", "I_FactorIsR", "I_SingularIsReported"]
_REJ = re.compile(r'^<<"REJECT", (\d+), "(.*)">>\s*$', re.M)


_REJD = re.compile(r'^<<"REJECTED", "(.*)">>\s*$', re.M)


def validate_simple(module, trace, wd, name, max_rounds=10):
    """Independent one-line events.  Trace_Matrix / Trace_Gamma judge every event in one pass (invariant Verdict prints
    the rejected line numbers); Trace_Vec stops at the first rejected event, which is then dropped and the rest re-validated."""
    core.lint_trace_file(trace)
    lines = [l for l in open(trace) if l.strip()]
    if module in ("Trace_Matrix", "Trace_Gamma"):
        cfg = core.cfg_text(spec="TSpec", invariants=["Verdict"], postcondition="TraceAccepted")
        r = core.tlc(module, cfg, name, wd, workers=1, timeout=1800, coverage=False, dfs=True, env_extra={"TRACE": trace}, xmx="6g")
        m = _REJD.search(r.out)
        if m:
            info = json.loads(core.unquote_tla_string(m.group(1)))
            return [{"line": ln, "event": json.loads(lines[ln - 1])} for ln in info["lines"]], r.distinct
        if r.violated:
            raise core.ToolError("%s: trace not consumed (%s)\n%s" % (module, r.violated, r.out[-1500:]))
        return [], r.distinct
    rej = []
    cur = trace
    states = 0
    for rnd in range(max_rounds):
        cfg = core.cfg_text(spec="TSpec", postcondition="TraceAccepted")
        r = core.tlc(module, cfg, "%s_%d" % (name, rnd), wd, workers=1, timeout=1800, coverage=False, dfs=True,
                     env_extra={"TRACE": cur}, xmx="6g")
        states += r.distinct
        m = _REJ.search(r.out)
        if not m:
            break
        ln = int(m.group(1))
        ev = json.loads(core.unquote_tla_string(m.group(2)))
        rej.append({"line": ln, "event": ev})
        cl = [l for l in open(cur) if l.strip()]
        del cl[ln - 1]
        cur = os.path.join(wd, "%s_cut%d.ndjson" % (name, rnd))
        open(cur, "w").writelines(cl)
    else:
        core.log("stopped after %d rejected events; the rest of %s was not validated" % (max_rounds, trace))
    return rej, states


def attribute(ev):
    """C16: outcome classes; C15: accuracy on positive-definite inputs; C19: narrowing"""
    bad16 = ((ev.get("dq") == "zero" and ev.get("result") != "ZeroDet") or (ev.get("result") == "Ok" and ev.get("det") == "zero")
             or (ev.get("result") == "Ok" and ev.get("tolc") == "some" and (ev.get("err") not in ("le", "border") or ev.get("nan")))
             or ev.get("result") == "Panic")
    if bad16:
        return "C16"
    if ev.get("narrow", 0) != 0:
        return "C19"
    if ev.get("dbg_same") is False:
        return "C17"
    return "C15"


def run(prop, tier, seed, replay=None):
    t0 = time.time()
    wd = core.workdir(prop)
    core.cargo_build()
    if replay:
        rp = json.load(open(replay))
        if "event" in rp["instance"]:
            tp = os.path.join(wd, "replay.ndjson")
            core.write_lines(tp, [rp["instance"]["event"]])
            # re-run the real code on the recorded matrix
            s = core.mt("replay-dec", tp, os.path.join(wd, "sum.json"), seed, {"trace": os.path.join(wd, "re.ndjson")})
            rej, _ = validate_simple("Trace_Matrix", os.path.join(wd, "re.ndjson"), wd, "replay")
            mine = [r for r in rej if attribute(r["event"]) == prop]
            print(("VIOLATION property=%s replay=%s" % (prop, replay)) if mine else ("OK property=%s (replay)" % prop))
            return 1 if mine else 0
        if rp["instance"].get("dd") or "routings" in rp["instance"].get("line", {}):
            from . import p_sample
            return p_sample.run(prop, tier, seed, replay)
        inp = os.path.join(wd, "replay.ndjson")
        core.write_lines(inp, [rp["instance"]["line"]])
        s = core.mt("replay-chol", inp, os.path.join(wd, "sum.json"), seed)
        bad = [v for v in s["violations"] if v["property"] == prop]
        print(("VIOLATION property=%s replay=%s" % (prop, replay)) if bad else ("OK property=%s (replay)" % prop))
        return 1 if bad else 0
    # 1. the specification itself
    consts = (dict(NMIN=1, NMAX=3, DIAG={0, 1, 2}, OFFK=1) if tier == "quick" else dict(NMIN=1, NMAX=4, DIAG={0, 1, 2}, OFFK=1))
    cfg = core.cfg_text(constants=consts, invariants=INVS, overrides={"TOLS": "MCTols"})
    r = core.tlc("MC_Matrix", cfg, "mc_matrix", wd, workers=12, timeout=600 if tier == "quick" else 7200)
    if r.violated:
        raise core.ToolError("specification-level check failed: MC_Matrix violates %s\n%s" % (r.violated, r.out[-1500:]))
    core.require_coverage(r, MC_ACTIONS, "Matrix")
    core.liveness("MC_Matrix", "FairSpec", dict(consts, NMAX=3), "RunTerminates", "mc_matrix_live", wd, overrides={"TOLS": "MCTols"})
    # 2. exactness scope, replayed
    rnd = random.Random(seed)
    path = os.path.join(wd, "chol.ndjson")
    open(path, "w").close()
    if tier == "quick":
        gruns = [dict(NMIN=1, NMAX=3, DIAG={0, 1, 2, 4}, OFFK=2, STRIDE=7, OFFSET=rnd.randrange(7)),
                 dict(NMIN=4, NMAX=4, DIAG={1, 2}, OFFK=1, STRIDE=37, OFFSET=rnd.randrange(37))]
    else:
        gruns = [dict(NMIN=1, NMAX=3, DIAG={0, 1, 2, 4}, OFFK=2, STRIDE=1, OFFSET=0),
                 dict(NMIN=4, NMAX=4, DIAG={0, 1, 2, 4}, OFFK=1, STRIDE=11, OFFSET=rnd.randrange(11)),
                 dict(NMIN=5, NMAX=5, DIAG={1}, OFFK=1, STRIDE=211, OFFSET=rnd.randrange(211))]
    gst = 0
    for i, c in enumerate(gruns):
        g = core.tlc("Gen_Chol", core.cfg_text(constants=c, invariants=["Emit"], overrides={"TOLS": "MCTols"}), "gen_chol_%d" % i, wd,
                     workers=12, timeout=7200, coverage=False, replay_to=path)
        gst += g.distinct
    nl = core.count_lines(path)
    if nl < 100:
        raise core.ToolError("vacuity guard: Gen_Chol emitted %d lines" % nl)
    s1 = core.mt("replay-chol", path, os.path.join(wd, "sum1.json"), seed)
    # 3. recorded classes, validated
    trace = os.path.join(wd, "matrix.ndjson")
    s2 = core.mt("record-matrix", None, os.path.join(wd, "sum2.json"), seed, {"trace": trace, "count": 6000 if tier == "quick" else 60000})
    rej, tstates = validate_simple("Trace_Matrix", trace, wd, "trace")
    violations = list(s1["violations"])
    for x in rej:
        p = attribute(x["event"])
        violations.append({"property": p, "what": "decompose_for_tropical call rejected by Trace_Matrix (%s): result=%s dq=%s det=%s err=%s nan=%s spd=%s kind=%s n=%s"
                           % (p, x["event"].get("result"), x["event"].get("dq"), x["event"].get("det"), x["event"].get("err"), x["event"].get("nan"),
                              x["event"].get("spd"), x["event"].get("kind"), x["event"].get("n")),
                           "instance": {"event": x["event"]}, "detail": {"runner": "trace-matrix", "kind": x["event"].get("kind")}})
    c = dict(s1["counters"]); c.update(s2["counters"])
    if prop == "C16":
        # "... neither by decompose_for_tropical nor through a sample": samples with the stability test on, corner points included
        from . import p_sample
        rpath, rruns, rst, rn = p_sample.gen_routing(tier, wd, seed)
        sopts3 = {"points": 8 if tier == "quick" else 30, "boundary": 0, "stab_all": 1}
        s3 = core.mt("replay-sample", rpath, os.path.join(wd, "sum3.json"), seed, sopts3)
        violations += [v for v in s3["violations"] if v["property"] == "C16"]
        c["samples_with_stability_test_ok"] = s3["counters"].get("ok_samples_with_stability_test", 0)
        c["samples_unstable"] = s3["counters"].get("outcome_ErrUnstable", 0)
        c["samples_zerodet"] = s3["counters"].get("outcome_ErrZeroDet", 0)
        c["violations_C16"] = c.get("violations_C16", 0) + s3["counters"].get("violations_C16", 0)
        if c["samples_with_stability_test_ok"] < 500:
            raise core.ToolError("vacuity guard: only %d samples with the stability test on" % c["samples_with_stability_test_ok"])
    ddc = None
    if prop in ("C15", "C16"):
        # "... each to a relative accuracy proportional to the condition number" (C15), "Ok only if the distance is at most tol" (C16):
        # also in a user type of higher precision (the tolerance boundary is then decided by the low part of the distance)
        from . import p_sample
        if prop == "C15":
            rpath, rruns, rst, rn = p_sample.gen_routing(tier, wd, seed)
        ddv, ddc = p_sample.dd_part(prop, tier, wd, seed, rpath)
        violations += ddv
        c["violations_" + prop] = c.get("violations_" + prop, 0) + ddc.get("violations_" + prop, 0)
    cov = {
        "states": r.distinct + tstates, "transitions": r.generated,
        "traces_validated_against_impl": s1["evaluations"] + s2["evaluations"] - len(rej),
        "samples": s1["samples"][:1] + s2["samples"][:1],
        "evaluations": s1["evaluations"] + s2["evaluations"], "distinct_nontrivial": s1["nontrivial"] + s2["nontrivial"],
        "rule": "replay: M = R^T R with R upper triangular (diagonal 0/1/2/4, off-diagonal -2..2), exact rational results from the TLA+ machine, "
                "<= 4 ulp (0 expected); record: 10 families (random SPD, graded, Hilbert, L-like, singular, indefinite, non-finite, scaled, "
                "semi-definite, ill-conditioned) x dimension 1..8 x 7 tolerances; non-trivial = dimension >= 3 (replay) / SPD with cond <= 1e10 (record)",
        "exhaustive": False,
        "tlc_model": {"module": "MC_Matrix", "constants": {k: (sorted(v) if isinstance(v, set) else v) for k, v in consts.items()}, "invariants": INVS,
                      "states": r.distinct, "action_counts": r.coverage},
        "generator": {"module": "Gen_Chol", "lines": nl, "states": gst},
        "trace_validation": {"module": "Trace_Matrix", "events": s2["events"], "rejected": len(rej)},
        "double_double_scalar": ddc,
        "harness_counters": c,
        "trusted_base": ["TLC 1.8", "num::BigRational Gaussian elimination (exact reference for double matrices)", "tracking scalar (value of det_q at the zero test)"],
    }
    assumptions = ["accuracy constant K = 256 n^2 eps cond (two orders above the worst ratio measured on the unchanged tree)",
                   "only the `only if` direction of the stability test raises a violation"]
    return core.finish(prop, tier, seed, "model_checking", cov, assumptions, t0, violations, {"runner": "replay-chol", "seed": seed, "opts": {"points": 8 if tier == "quick" else 30, "boundary": 0, "stab_all": 1}})
