"""C12 (Gamma quantile) and C20 (Vector / f64 primitives)."""
import json, os, time
from . import core
from .p_matrix import validate_simple


def run_c12(prop, tier, seed, replay=None):
    t0 = time.time()
    wd = core.workdir(prop)
    core.cargo_build()
    if replay:
        rp = json.load(open(replay))
        if "line" in rp["instance"] or rp["instance"].get("dd"):
            from . import p_sample
            return p_sample.run(prop, tier, seed, replay)
        tp = os.path.join(wd, "in.ndjson")
        core.write_lines(tp, [rp["instance"]["event"]])
        core.mt("replay-gamma", tp, os.path.join(wd, "sum.json"), seed, {"trace": os.path.join(wd, "re.ndjson")})
        rej, _ = validate_simple("Trace_Gamma", os.path.join(wd, "re.ndjson"), wd, "replay")
        print(("VIOLATION property=%s replay=%s" % (prop, replay)) if rej else ("OK property=%s (replay)" % prop))
        return 1 if rej else 0
    cfg = core.cfg_text(spec="GSpec", constants={"MaxIter": 6 if tier == "quick" else 50}, invariants=["GTypeOK", "OutcomeOK", "IterBound"],
                        properties=["GTermination"])
    r = core.tlc("MC_Gamma", cfg, "mc_gamma", wd, workers=4, timeout=600)
    if r.violated:
        raise core.ToolError("MC_Gamma violates " + r.violated)
    core.require_coverage(r, ["Guess", "Iterate", "Exhausted", "Wrap"], "Gamma")
    trace = os.path.join(wd, "gamma.ndjson")
    opts = {"trace": trace, "shapes": 400 if tier == "quick" else 4000}
    if tier != "quick":
        opts["dense"] = 1
    s = core.mt("record-gamma", None, os.path.join(wd, "sum.json"), seed, opts)
    rej, tstates = validate_simple("Trace_Gamma", trace, wd, "trace", max_rounds=12)
    violations = [{"property": "C12", "what": "inverse_gamma_lr call rejected by Trace_Gamma: cls=%s indomain=%s acc=%s mono=%s (%s)"
                   % (x["event"].get("cls"), x["event"].get("indomain"), x["event"].get("acc"), x["event"].get("mono"), x["event"].get("note")),
                   "instance": {"event": x["event"]}, "detail": {"runner": "trace-gamma", "cls": x["event"].get("cls")}} for x in rej]
    # the lambda used by a sample is this function of dod and of coordinate 2E-2 (bit-exact), on the Gen_Routing replay
    from . import p_sample
    path, runs, gstates, nlines = p_sample.gen_routing(tier, wd, seed)
    s2 = core.mt("replay-sample", path, os.path.join(wd, "sum2.json"), seed, {"points": 8 if tier == "quick" else 30, "boundary": 0})
    violations += [v for v in s2["violations"] if v["property"] == "C12"]
    # the quantile called with a user type of higher precision: p in [0,1) of THAT type
    ddv, ddc = p_sample.dd_part("C12", tier, wd, seed, path)
    violations += ddv
    c = dict(s["counters"]); c["sample_binding_points"] = s2["counters"].get("outcome_Ok", 0); c["violations_C12"] = s2["counters"].get("violations_C12", 0) + len(rej) + ddc.get("violations_C12", 0); c["dd_gamma_calls"] = ddc.get("dd_gamma_calls", 0)
    cov = {
        "evaluations": s["evaluations"] + s2["evaluations"], "distinct_nontrivial": s["nontrivial"],
        "rule": "shape a: log-spaced 0.05..100 plus 1 +- 1e-8{0,1/2,1,2}, quarter and third values, branch thresholds; p: 0, subnormal, 2^-k, "
                "1-2^-k (k <= 53), k/grid, random; one call per (a,p); non-trivial = true quantile >= 1e-13 (accuracy clause applies)",
        "samples": s["samples"][:2],
        "states": r.distinct + tstates, "transitions": r.generated, "traces_validated_against_impl": s["evaluations"] - len(rej),
        "tlc_model": {"module": "Gamma (control skeleton, outcome classes)", "states": r.distinct, "action_counts": r.coverage},
        "trace_validation": {"module": "Trace_Gamma", "events": s["events"], "rejected": len(rej)},
        "harness_counters": c,
        "trusted_base": ["harness series / continued-fraction P(a,x) and Lanczos lnGamma (independent of statrs)", "TLC 1.8"],
        "exhaustive": False,
    }
    return core.finish(prop, tier, seed, "exploration", cov,
                       ["the number P(a, lambda) is computed by the harness oracle, not by the specification (DESIGN.md section 6)"],
                       t0, violations, {"runner": "trace-gamma", "seed": seed, "opts": {"points": 8 if tier == "quick" else 30, "boundary": 0}})


def run_c20(prop, tier, seed, replay=None):
    t0 = time.time()
    wd = core.workdir(prop)
    core.cargo_build()
    r = core.tlc("MC_Vec", core.cfg_text(invariants=["Lemmas"]), "mc_vec", wd, workers=2, timeout=300, coverage=False)
    if r.violated:
        raise core.ToolError("MC_Vec violates " + r.violated)
    trace = os.path.join(wd, "vec.ndjson")
    s = core.mt("record-vector", None, os.path.join(wd, "sum.json"), seed, {"trace": trace, "num": 2000 if tier == "quick" else 50000})
    # the Float event carries a list of strings; lint-compatible
    rej, tstates = validate_simple("Trace_Vec", trace, wd, "trace")
    violations = [{"property": "C20", "what": "Vector / scalar primitive rejected by Trace_Vec: %s" % json.dumps(x["event"])[:400],
                   "instance": {"event": x["event"]}, "detail": {"runner": "trace-vec"}} for x in rej]
    if replay:
        print(("VIOLATION property=%s replay=%s" % (prop, replay)) if rej else ("OK property=%s (replay)" % prop))
        return 1 if rej else 0
    cov = {
        "states": r.distinct + tstates, "transitions": r.generated + tstates,
        "traces_validated_against_impl": int(s["events"]) - len(rej),
        "samples": s["samples"][:2],
        "evaluations": s["evaluations"], "distinct_nontrivial": s["nontrivial"],
        "rule": "D = 1..8: every public Vector operation on symbolic leaves (term recorded by the tracking scalar, compared by TLC with "
                "VectorAlg modulo commutativity; fold spine of dot/squared ordered from index 0); recorded terms evaluated in IEEE arithmetic vs "
                "Vector<f64, D> on random/special vectors (bit equality); f64 MomTropFloat vs std on random/special values; non-trivial = dimensions covered",
        "exhaustive": False,
        "trace_validation": {"module": "Trace_Vec", "events": s["events"], "rejected": len(rej)},
        "trusted_base": ["TLC 1.8", "Rust std f64 functions as the reference for the scalar trait (differential)"],
    }
    return core.finish(prop, tier, seed, "model_checking", cov, ["finite f64 components incl. +-0, subnormals, 1e+-300"], t0, violations,
                       {"runner": "trace-vec", "seed": seed})
