----------------------------- MODULE TropGraph -----------------------------
(***************************************************************************)
(* Declarative layer: what the entries of momtrop's subgraph table ARE.    *)
(*                                                                         *)
(* A graph is a record                                                     *)
(*   [edges : Seq(<<v,v>>), mass : Seq(BOOLEAN), w : Seq(Nat \ {0}),      *)
(*    wd : even Nat, ext : SUBSET vertices, D : Nat]                       *)
(* Edge e (1-based here, 0-based in the code) has weight w[e]/wd.          *)
(* Edge subsets are also addressed by the code's bit-mask id               *)
(* (bit e-1 set <=> e in S), ids 0 .. 2^E-1.                               *)
(* All degrees of divergence are integers in units of 1/wd.                *)
(***************************************************************************)
EXTENDS Integers, Sequences, FiniteSets, FiniteSetsExt, Rational

NE(g)      == Len(g.edges)
Full(g)    == 1..NE(g)

RECURSIVE Pow2(_)
Pow2(n)    == IF n = 0 THEN 1 ELSE 2 * Pow2(n - 1)
MaxId(g)   == Pow2(NE(g)) - 1
SetOf(id, n) == {e \in 1..n : (id \div Pow2(e - 1)) % 2 = 1}
IdOf(S)    == FoldSet(LAMBDA e, a : a + Pow2(e - 1), 0, S)

EV(g, e)       == {g.edges[e][1], g.edges[e][2]}
VertsOf(g, S)  == UNION {EV(g, e) : e \in S}
AllV(g)        == VertsOf(g, Full(g))

\* connected components of the edge-induced subgraph S (edges adjacent iff they share a vertex)
RECURSIVE Close(_, _, _)
Close(g, S, C) == LET N == {e \in S : EV(g, e) \cap VertsOf(g, C) # {}}
                  IN IF N = C THEN C ELSE Close(g, S, N)
RECURSIVE Comps(_, _)
Comps(g, S)    == IF S = {} THEN {}
                  ELSE LET e == CHOOSE e \in S : TRUE
                           C == Close(g, S, {e})
                       IN {C} \cup Comps(g, S \ C)

\* cyclomatic number: edges - touched vertices + components
Loops(g, S)    == Cardinality(S) - Cardinality(VertsOf(g, S)) + Cardinality(Comps(g, S))

Massive(g)     == {e \in Full(g) : g.mass[e]}
\* mass-momentum spanning: contains all massive edges and ONE component touches every external.
\* The empty set has no component, hence is never spanning; an external no edge of S touches
\* makes S non-spanning.
Spanning(g, S) == /\ Massive(g) \subseteq S
                  /\ \E C \in Comps(g, S) : g.ext \subseteq VertsOf(g, C)

WSum(g, S)     == FoldSet(LAMBDA e, a : a + g.w[e], 0, S)
HalfD(g)       == (g.wd \div 2) * g.D                      \* D/2 in units of 1/wd
Dod(g)         == WSum(g, Full(g)) - HalfD(g) * Loops(g, Full(g))
GDod(g, S)     == IF S = {} THEN g.wd
                  ELSE WSum(g, S) - HalfD(g) * Loops(g, S) - (IF Spanning(g, S) THEN Dod(g) ELSE 0)

ProperSubsets(g) == {S \in SUBSET Full(g) : S # {} /\ S # Full(g)}
Divergent(g)     == \E S \in ProperSubsets(g) : GDod(g, S) <= 0
\* "accepted" in the sense of the properties: build succeeds and the overall dod is positive
Accepted(g)      == NE(g) >= 1 /\ ~Divergent(g) /\ Dod(g) > 0

Dim(g)         == LET ng == g.D * Loops(g, Full(g)) IN 2 * NE(g) - 1 + ng + (ng % 2)

(***************************************************************************)
(* Tables indexed by id+1 (sequences, so that ToJson prints arrays).       *)
(***************************************************************************)
RECURSIVE SeqTabFrom(_, _, _, _)
SeqTabFrom(Op(_), acc, i, n) == IF i > n THEN acc ELSE SeqTabFrom(Op, Append(acc, Op(i)), i + 1, n)
SeqTab(Op(_), n) == SeqTabFrom(Op, <<>>, 0, n)             \* <<Op(0), ..., Op(n)>>

LoopTab(g) == SeqTab(LAMBDA id : Loops(g, SetOf(id, NE(g))), MaxId(g))
SpanTab(g) == SeqTab(LAMBDA id : Spanning(g, SetOf(id, NE(g))), MaxId(g))
GDodTab(g) == SeqTab(LAMBDA id : GDod(g, SetOf(id, NE(g))), MaxId(g))

\* J by its defining recursion, as exact rationals; gd = GDodTab(g).
\* J(0) = 1, J(S) = sum_{e in S} J(S \ e) / omega(S \ e).
\* For a divergent graph some omega may be <= 0: division by 0 yields OVF, which is fine because
\* J is only ever used on graphs the sampler accepts.
JNext(g, gd, acc, id) ==
   FoldSet(LAMBDA e, a : LET sub == id - Pow2(e - 1)
                         IN RAdd(a, RDiv(acc[sub + 1], <<gd[sub + 1], g.wd>>)),
           Zero, SetOf(id, NE(g)))
RECURSIVE JFrom(_, _, _, _)
JFrom(g, gd, acc, id) == IF id > MaxId(g) THEN acc
                         ELSE JFrom(g, gd, Append(acc, JNext(g, gd, acc, id)), id + 1)
JTab(g, gd) == JFrom(g, gd, <<One>>, 1)

\* J(full) as the sum over all E! removal orders of prod_k 1/omega(g_k)   (g_k = graph after k removals)
RECURSIVE ItrPermFrom(_, _, _)
ItrPermFrom(g, gd, S) ==
   IF S = {} THEN One
   ELSE FoldSet(LAMBDA e, a :
                  LET R == S \ {e}
                  IN RAdd(a, RMul(<<g.wd, gd[IdOf(R) + 1]>>, ItrPermFrom(g, gd, R))),
                Zero, S)

\* probability that edge e is removed from the subgraph with id sid (e in it), exact
PEdge(g, gd, jt, sid, e) == LET sub == sid - Pow2(e - 1)
                            IN RDiv(RDiv(jt[sub + 1], jt[sid + 1]), <<gd[sub + 1], g.wd>>)
\* cumulative sums in index order: <<c_1, ..., c_k>> for the edges of sid in increasing order
RECURSIVE CumFrom(_, _, _, _, _, _)
CumFrom(g, gd, jt, sid, es, acc) ==
   IF es = {} THEN <<>>
   ELSE LET e == Min(es)
            c == RAdd(acc, PEdge(g, gd, jt, sid, e))
        IN <<c>> \o CumFrom(g, gd, jt, sid, es \ {e}, c)
Cum(g, gd, jt, sid) == CumFrom(g, gd, jt, sid, SetOf(sid, NE(g)), Zero)

AnyOvf(s) == \E i \in 1..Len(s) : IsOvf(s[i])

FullTable(g) == LET gd == GDodTab(g)
                    jt == IF Divergent(g) THEN <<>> ELSE JTab(g, gd)
                IN [l |-> LoopTab(g), s |-> SpanTab(g), w |-> gd, j |-> jt]
=============================================================================
