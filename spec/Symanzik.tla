----------------------------- MODULE Symanzik -----------------------------
(***************************************************************************)
(* Declarative layer: Symanzik polynomials of a connected multigraph from  *)
(* spanning trees and 2-forests, and the algebraic objects the sampler     *)
(* computes instead (L = S^T X S, the vectors u, V = ... - u^T L^-1 u).    *)
(* Everything is over the integers: Feynman parameters, masses and         *)
(* momenta are small integers, so the identities checked by TLC are exact. *)
(*                                                                         *)
(*  x   : [1..E -> Int]            Feynman parameters                      *)
(*  m2  : [1..E -> Nat]            squared masses                          *)
(*  p   : [1..E -> Seq(Int)]       edge shifts, vectors of length DD       *)
(*  sig : [1..E -> Seq(Int)]       signature matrix, rows of length L      *)
(* Edge e = <<a, b>> is oriented a -> b.                                   *)
(***************************************************************************)
EXTENDS TropGraph

\* ---------------------------------------------------------------- small linear algebra over Int
SumFn(f, S)      == FoldSet(LAMBDA e, a : a + f[e], 0, S)
SumOp(Op(_), S)   == FoldSet(LAMBDA e, a : a + Op(e), 0, S)
Prod(x, S)        == FoldSet(LAMBDA e, a : a * x[e], 1, S)
VDot(a, b)        == SumOp(LAMBDA i : a[i] * b[i], 1..Len(a))
VZero(dd)         == [i \in 1..dd |-> 0]
VAdd(a, b)        == [i \in 1..Len(a) |-> a[i] + b[i]]
VScale(c, a)      == [i \in 1..Len(a) |-> c * a[i]]
VSum(Op(_), S, dd) == FoldSet(LAMBDA e, a : VAdd(a, Op(e)), VZero(dd), S)

Minor(M, r, c) == LET n == Len(M) IN
   [i \in 1..(n - 1) |-> [j \in 1..(n - 1) |-> M[IF i < r THEN i ELSE i + 1][IF j < c THEN j ELSE j + 1]]]
RECURSIVE Det(_)
Det(M) == IF Len(M) = 0 THEN 1
          ELSE IF Len(M) = 1 THEN M[1][1]
          ELSE SumOp(LAMBDA j : (IF j % 2 = 1 THEN 1 ELSE -1) * M[1][j] * Det(Minor(M, 1, j)), 1..Len(M))
\* adjugate: Adj[i][j] = (-1)^(i+j) det(minor(j,i));  M * Adj = det(M) * I
Adj(M) == LET n == Len(M) IN
   [i \in 1..n |-> [j \in 1..n |-> (IF (i + j) % 2 = 0 THEN 1 ELSE -1) * Det(Minor(M, j, i))]]
MatMul(A, B) == [i \in 1..Len(A) |-> [j \in 1..Len(B[1]) |-> SumOp(LAMBDA k : A[i][k] * B[k][j], 1..Len(B))]]

\* ---------------------------------------------------------------- trees and forests
NV(g)      == Cardinality(AllV(g))
Acyclic(g, T) == Loops(g, T) = 0
Trees(g)   == {T \in SUBSET Full(g) : Cardinality(T) = NV(g) - 1 /\ Acyclic(g, T)
                                       /\ (T = {} \/ (VertsOf(g, T) = AllV(g) /\ Cardinality(Comps(g, T)) = 1))}
\* spanning 2-forests: acyclic, |V| - 2 edges (isolated vertices count as trees)
Forests2(g) == {F \in SUBSET Full(g) : Cardinality(F) = NV(g) - 2 /\ Acyclic(g, F)}
\* vertex set of the tree of forest F that contains vertex v
VComp(g, F, v) == LET C == {c \in Comps(g, F) : v \in VertsOf(g, c)}
                  IN IF C = {} THEN {v} ELSE VertsOf(g, CHOOSE c \in C : TRUE)
Connected(g) == NE(g) >= 1 /\ Cardinality(Comps(g, Full(g))) = 1

\* ---------------------------------------------------------------- kinematics from a reference flow
\* external momentum entering vertex v for edge flows p (momentum conservation defines it)
Inflow(g, p, v, dd) ==
   VSum(LAMBDA e : VAdd(IF g.edges[e][1] = v THEN p[e] ELSE VZero(dd),
                        IF g.edges[e][2] = v THEN VScale(-1, p[e]) ELSE VZero(dd)), Full(g), dd)
\* total momentum entering a vertex set
PIn(g, p, W, dd) == FoldSet(LAMBDA v, a : VAdd(a, Inflow(g, p, v, dd)), VZero(dd), W)
Sq(a) == VDot(a, a)
ExtOf(g, p, dd) == {v \in AllV(g) : Inflow(g, p, v, dd) # VZero(dd)}

\* ---------------------------------------------------------------- the polynomials, declaratively
Udecl(g, x) == FoldSet(LAMBDA T, a : a + Prod(x, Full(g) \ T), 0, Trees(g))
\* coefficient of the square-free monomial of a 2-forest: |P(T1)|^2 + masses of the edges joining the trees
Joins(g, F)  == {e \in Full(g) \ F : F \cup {e} \in Trees(g)}
FCoef2(g, F, p, m2, dd) ==
   LET v0 == CHOOSE v \in AllV(g) : TRUE
   IN Sq(PIn(g, p, VComp(g, F, v0), dd)) + SumFn(m2, Joins(g, F))
Fdecl(g, x, p, m2, dd) ==
     FoldSet(LAMBDA F, a : a + FCoef2(g, F, p, m2, dd) * Prod(x, Full(g) \ F), 0, Forests2(g))
   + FoldSet(LAMBDA T, a : a + Prod(x, Full(g) \ T) * SumOp(LAMBDA e : m2[e] * x[e], Full(g) \ T), 0, Trees(g))

\* ---------------------------------------------------------------- what the sampler computes
LMat(g, sig, x) == LET L == Len(sig[1]) IN
   [i \in 1..L |-> [j \in 1..L |-> SumOp(LAMBDA e : x[e] * sig[e][i] * sig[e][j], Full(g))]]
UVecs(g, sig, x, p, dd) == LET L == Len(sig[1]) IN
   [l \in 1..L |-> VSum(LAMBDA e : VScale(sig[e][l] * x[e], p[e]), Full(g), dd)]
Ualg(g, sig, x) == Det(LMat(g, sig, x))
\* det(L) * V  (integers):  det(L) sum_e x_e (m_e^2 + |p_e|^2)  -  u^T adj(L) u
Falg(g, sig, x, p, m2, dd) ==
   LET LM == LMat(g, sig, x)
       uv == UVecs(g, sig, x, p, dd)
       A  == Adj(LM)
       L  == Len(LM)
   IN Det(LM) * SumOp(LAMBDA e : x[e] * (m2[e] + Sq(p[e])), Full(g))
      - SumOp(LAMBDA i : SumOp(LAMBDA j : A[i][j] * VDot(uv[i], uv[j]), 1..L), 1..L)

\* completing the square (C10), multiplied by det(L)^2 to stay in the integers:
\*   det^2 * sum_e x_e(|S_e.k + p_e|^2 + m_e^2)
\*     = (det k + adj u)^T L (det k + adj u) + det * Falg
EdgeMom(sig, k, p, e, dd) == VAdd(VSum(LAMBDA l : VScale(sig[e][l], k[l]), 1..Len(k), dd), p[e])
SquareLhs(g, sig, x, p, m2, k, dd) ==
   LET d == Ualg(g, sig, x)
   IN d * d * SumOp(LAMBDA e : x[e] * (Sq(EdgeMom(sig, k, p, e, dd)) + m2[e]), Full(g))
SquareRhs(g, sig, x, p, m2, k, dd) ==
   LET LM == LMat(g, sig, x)
       d  == Det(LM)
       A  == Adj(LM)
       uv == UVecs(g, sig, x, p, dd)
       L  == Len(LM)
       w  == [l \in 1..L |-> VAdd(VScale(d, k[l]), VSum(LAMBDA j : VScale(A[l][j], uv[j]), 1..L, dd))]
   IN SumOp(LAMBDA i : SumOp(LAMBDA j : LM[i][j] * VDot(w[i], w[j]), 1..L), 1..L)
      + d * Falg(g, sig, x, p, m2, dd)

\* ---------------------------------------------------------------- cycle bases and routings
Div(g, z, v) == SumOp(LAMBDA e : (IF g.edges[e][1] = v THEN z[e] ELSE 0) - (IF g.edges[e][2] = v THEN z[e] ELSE 0), Full(g))
\* fundamental cycle of chord c with respect to spanning tree T: the circulation through c supported on T + c
Fund(g, T, c) == CHOOSE z \in [Full(g) -> {-1, 0, 1}] :
                    /\ z[c] = 1 /\ (\A e \in Full(g) \ (T \cup {c}) : z[e] = 0)
                    /\ \A v \in AllV(g) : Div(g, z, v) = 0
\* signature of tree T: one column per chord, chords in increasing order
RECURSIVE SetToSeqInc(_)
SetToSeqInc(S) == IF S = {} THEN <<>> ELSE <<Min(S)>> \o SetToSeqInc(S \ {Min(S)})
FundSig(g, T) == LET ch == SetToSeqInc(Full(g) \ T)
                     zs == [l \in 1..Len(ch) |-> Fund(g, T, ch[l])]
                 IN [e \in Full(g) |-> [l \in 1..Len(ch) |-> zs[l][e]]]
\* unimodular integer matrices with entries in -1..1
GL(L) == {A \in [1..L -> [1..L -> {-1, 0, 1}]] : Det(A) \in {-1, 1}}
SigTimes(sig, A) == [e \in DOMAIN sig |-> [l \in 1..Len(A) |-> SumOp(LAMBDA k : sig[e][k] * A[k][l], 1..Len(A))]]
\* reverse the orientation of the edges in R: signature rows and shifts change sign
Flip(sig, R)  == [e \in DOMAIN sig |-> IF e \in R THEN VScale(-1, sig[e]) ELSE sig[e]]
FlipP(p, R)   == [e \in DOMAIN p |-> IF e \in R THEN VScale(-1, p[e]) ELSE p[e]]
\* constant offsets of the loop momenta: p_e += sum_l sig[e][l] c_l
Offset(sig, p, c, dd) == [e \in DOMAIN p |-> VAdd(p[e], VSum(LAMBDA l : VScale(sig[e][l], c[l]), 1..Len(c), dd))]
IsCycleBasis(g, sig) == /\ \A l \in 1..Len(sig[1]) : \A v \in AllV(g) : Div(g, [e \in Full(g) |-> sig[e][l]], v) = 0
                        /\ Len(sig[1]) = Loops(g, Full(g))

\* ---------------------------------------------------------------- constants of C02
NT(g) == Cardinality(Trees(g))
\* all coefficients of F (square-free 2-forest monomials, and x_e-squared mass monomials)
FCoefBag(g, p, m2, dd) ==
   [sq |-> [F \in Forests2(g) |-> FCoef2(g, F, p, m2, dd)],
    ms |-> [te \in {te \in Trees(g) \X Full(g) : te[2] \notin te[1]} |-> m2[te[2]]]]
FCoefValues(g, p, m2, dd) ==
   LET b == FCoefBag(g, p, m2, dd)
   IN {b.sq[F] : F \in DOMAIN b.sq} \cup {b.ms[t] : t \in DOMAIN b.ms}
Cmin(g, p, m2, dd) == Min(FCoefValues(g, p, m2, dd) \ {0})
Csum(g, p, m2, dd) ==
   LET b == FCoefBag(g, p, m2, dd)
   IN FoldSet(LAMBDA F, a : a + b.sq[F], 0, DOMAIN b.sq) + FoldSet(LAMBDA t, a : a + b.ms[t], 0, DOMAIN b.ms)
\* monomials of F with a non-zero coefficient, evaluated at x
FMonVals(g, x, p, m2, dd) ==
   LET b == FCoefBag(g, p, m2, dd)
   IN {Prod(x, Full(g) \ F) : F \in {F \in DOMAIN b.sq : b.sq[F] # 0}}
      \cup {x[t[2]] * Prod(x, Full(g) \ t[1]) : t \in {t \in DOMAIN b.ms : b.ms[t] # 0}}
UMonVals(g, x) == {Prod(x, Full(g) \ T) : T \in Trees(g)}
=============================================================================
