----------------------------- MODULE GraphGen -----------------------------
(***************************************************************************)
(* Finite families of multigraphs used by the model configurations and the *)
(* behaviour generators.  G(v,e): every sequence of 1..e edges over         *)
(* unordered pairs (self-loops included) of v vertex labels, every mass     *)
(* pattern, every external set over v+1 labels (so that an external that    *)
(* no edge touches occurs), weights from a small set, dimension from a set. *)
(***************************************************************************)
EXTENDS Integers, Sequences, FiniteSets

Pairs(V)        == {p \in (1..V) \X (1..V) : p[1] <= p[2]}
EdgeSeqs(V, n)  == [1..n -> Pairs(V)]
MassPats(n)     == [1..n -> BOOLEAN]
WeightPats(n, W) == [1..n -> W]

GraphsN(V, n, W, wd, Ds, ExtV) ==
   {[edges |-> es, mass |-> m, w |-> w, wd |-> wd, ext |-> x, D |-> d] :
        es \in EdgeSeqs(V, n), m \in MassPats(n), w \in WeightPats(n, W),
        x \in SUBSET (1..ExtV), d \in Ds}

GraphsUpTo(V, nmin, nmax, W, wd, Ds, ExtV) ==
   UNION {GraphsN(V, n, W, wd, Ds, ExtV) : n \in nmin..nmax}
=============================================================================
