---------------------------- MODULE ReadCounter ----------------------------
(***************************************************************************)
(* The read-cursor sub-machine of Sample.tla with integer state only, for   *)
(* ALL numbers of edges E >= 1 and of Gaussian components NG >= 0 (Apalache,*)
(* inductive invariant): a call that returns Ok has read exactly            *)
(*   2E - 1 + NG + (NG mod 2)                                               *)
(* coordinates; a matrix error leaves the cursor at 2E-2, a Gamma error at  *)
(* 2E-1.  (TLC checks the same on the full machine for bounded E.)          *)
(*   apalache-mc check --cinit=ConstInit --init=Init    --inv=IndInv --length=0 ReadCounter.tla *)
(*   apalache-mc check --cinit=ConstInit --init=IndInit --inv=IndInv --length=1 ReadCounter.tla *)
(*   apalache-mc check --cinit=ConstInit --init=IndInit --inv=Post   --length=0 ReadCounter.tla *)
(***************************************************************************)
EXTENDS Integers
CONSTANTS
    \* @type: Int;
    E,
    \* @type: Int;
    NG
VARIABLES
    \* @type: Str;
    pc,
    \* @type: Int;
    ctr,
    \* @type: Int;
    removed,
    \* @type: Int;
    pairs,
    \* @type: Str;
    out

NU == NG + (NG % 2)
ConstInit == E \in Int /\ NG \in Int /\ E >= 1 /\ NG >= 0

Init == pc = "sector" /\ ctr = 0 /\ removed = 0 /\ pairs = 0 /\ out = "none"

Pick   == pc = "sector" /\ E - removed >= 2 /\ ctr' = ctr + 1 /\ pc' = "assign" /\ UNCHANGED <<removed, pairs, out>>
Last   == pc = "sector" /\ E - removed = 1 /\ pc' = "assign" /\ UNCHANGED <<ctr, removed, pairs, out>>
Assign == pc = "assign" /\ removed' = removed + 1
          /\ pc' = (IF removed + 1 = E THEN "decomp" ELSE "xi") /\ UNCHANGED <<ctr, pairs, out>>
Xi     == pc = "xi" /\ ctr' = ctr + 1 /\ pc' = "sector" /\ UNCHANGED <<removed, pairs, out>>
DecOk  == pc = "decomp" /\ pc' = "lambda" /\ UNCHANGED <<ctr, removed, pairs, out>>
DecErr == pc = "decomp" /\ pc' = "done" /\ out' = "ErrMatrix" /\ UNCHANGED <<ctr, removed, pairs>>
LamOk  == pc = "lambda" /\ ctr' = ctr + 1 /\ pc' = (IF NU = 0 THEN "finish" ELSE "bm") /\ UNCHANGED <<removed, pairs, out>>
LamErr == pc = "lambda" /\ ctr' = ctr + 1 /\ pc' = "done" /\ out' = "ErrGamma" /\ UNCHANGED <<removed, pairs>>
Bm     == pc = "bm" /\ ctr' = ctr + 2 /\ pairs' = pairs + 1
          /\ pc' = (IF 2 * (pairs + 1) >= NU THEN "finish" ELSE "bm") /\ UNCHANGED <<removed, out>>
Finish == pc = "finish" /\ pc' = "done" /\ out' = "Ok" /\ UNCHANGED <<ctr, removed, pairs>>
Stutter == pc = "done" /\ UNCHANGED <<pc, ctr, removed, pairs, out>>
Next == Pick \/ Last \/ Assign \/ Xi \/ DecOk \/ DecErr \/ LamOk \/ LamErr \/ Bm \/ Finish \/ Stutter

IndInv ==
    /\ pc \in {"sector", "assign", "xi", "decomp", "lambda", "bm", "finish", "done"}
    /\ out \in {"none", "Ok", "ErrMatrix", "ErrGamma"}
    /\ removed >= 0 /\ removed <= E /\ pairs >= 0 /\ 2 * pairs <= NU
    /\ (pc = "sector" => (removed < E /\ ctr = 2 * removed /\ pairs = 0 /\ out = "none"))
    /\ (pc = "assign" => (removed < E /\ pairs = 0 /\ out = "none"
                          /\ ctr = (IF E - removed >= 2 THEN 2 * removed + 1 ELSE 2 * removed)))
    /\ (pc = "xi"     => (removed >= 1 /\ removed < E /\ ctr = 2 * removed - 1 /\ pairs = 0 /\ out = "none"))
    /\ (pc = "decomp" => (removed = E /\ ctr = 2 * E - 2 /\ pairs = 0 /\ out = "none"))
    /\ (pc = "lambda" => (removed = E /\ ctr = 2 * E - 2 /\ pairs = 0 /\ out = "none"))
    /\ (pc = "bm"     => (removed = E /\ ctr = 2 * E - 1 + 2 * pairs /\ 2 * pairs < NU /\ out = "none"))
    /\ (pc = "finish" => (removed = E /\ ctr = 2 * E - 1 + NU /\ 2 * pairs = NU /\ out = "none"))
    /\ (pc = "done"   => (/\ out # "none"
                          /\ (out = "Ok" => ctr = 2 * E - 1 + NU)
                          /\ (out = "ErrMatrix" => ctr = 2 * E - 2)
                          /\ (out = "ErrGamma" => ctr = 2 * E - 1)))
IndInit == /\ pc \in {"sector", "assign", "xi", "decomp", "lambda", "bm", "finish", "done"}
           /\ out \in {"none", "Ok", "ErrMatrix", "ErrGamma"}
           /\ ctr \in Int /\ removed \in Int /\ pairs \in Int
           /\ IndInv
\* the statement of C14 about the number of coordinates read
Post == (pc = "done" /\ out = "Ok") => ctr = 2 * E - 1 + NG + (NG % 2)
=============================================================================
