------------------------------- MODULE Build -------------------------------
(***************************************************************************)
(* Algorithmic layer for Graph::build_sampler                              *)
(*   TropicalGraph::from_graph, get_connected_components (the work-list    *)
(*   search with its visited / current_component / current_edges           *)
(*   variables), TropicalSubgraphTable::generate_from_tropical (loop over  *)
(*   subset ids in increasing order with the early Err exit) and           *)
(*   recursive_fill_j_function (memoised recursion, explicit stack).       *)
(* One action per loop iteration / recursion event of the code.            *)
(* The invariants say that this machine computes the declarative table of  *)
(* TropGraph and rejects exactly the divergent graphs.                     *)
(***************************************************************************)
EXTENDS TropGraph, TLC

CONSTANTS Skeletons,     \* set of edge sequences explored by the model
          Decorate(_)    \* skeleton |-> set of graph records with that edge sequence
\* (the graph is picked in two steps so that TLC's workers share the enumeration)

VARIABLES g,             \* the input graph (chosen in Init)
          pc,            \* "flags" | "bfs" | "jfill" | "cache" | "done" | "err"
          sid,           \* subset id being processed (flags loop)
          bfs,           \* state of the component search for SetOf(sid)
          tbl,           \* the table under construction: [l, s, w, j] sequences (j: rationals or "none")
          dod, nloops,   \* from_graph results
          stack,         \* recursion stack of recursive_fill_j_function
          ret,           \* value returned by the innermost finished call
          cached,        \* symbolic cached factor
          result,        \* "none" | "ok" | "err"
          oracle         \* the declarative table of g, evaluated once (constant along a behaviour;
                         \* not read by any action: it only makes the invariants cheap to evaluate)

vars == <<g, pc, sid, bfs, tbl, dod, nloops, stack, ret, cached, result, oracle>>

NONE == <<-1, -1>>      \* "Option::None" for a j entry (distinct from every rational and from OVF)

(***************************************************************************)
(* get_connected_components, one while-iteration per step.                 *)
(*   visited, cur : sets of edges; frontier : the set underlying           *)
(*   current_edges (the code's Vec may hold duplicates; only membership    *)
(*   matters); comps : sequence of closed components.                      *)
(***************************************************************************)
Nbr(gr, e, S) == {f \in S : EV(gr, e) \cap EV(gr, f) # {}}           \* includes e itself
BfsInit(S) == IF S = {} THEN [visited |-> {}, cur |-> {}, frontier |-> {}, comps |-> <<>>]
              ELSE LET f == Min(S) IN [visited |-> {f}, cur |-> {f}, frontier |-> {f}, comps |-> <<>>]
RECURSIVE SumLen(_)
SumLen(cs) == IF cs = <<>> THEN 0 ELSE Cardinality(Head(cs)) + SumLen(Tail(cs))
BfsRunning(S, b) == Cardinality(S) > SumLen(b.comps)
BfsStep(gr, S, b) ==
   LET nb    == UNION {Nbr(gr, e, S) : e \in b.frontier}
       grown == ~(nb \subseteq b.cur)
   IN IF grown
      THEN [visited |-> b.visited \cup nb, cur |-> b.cur \cup nb,
            frontier |-> b.frontier \cup nb, comps |-> b.comps]
      ELSE LET vis  == b.visited \cup nb
               rest == S \ vis
           IN IF rest = {}
              THEN [visited |-> vis, cur |-> {}, frontier |-> {}, comps |-> Append(b.comps, b.cur)]
              ELSE LET f == Min(rest)
                   IN [visited |-> vis \cup {f}, cur |-> {f}, frontier |-> {f},
                       comps |-> Append(b.comps, b.cur)]
RECURSIVE BfsRun(_, _, _)
BfsRun(gr, S, b) == IF BfsRunning(S, b) THEN BfsRun(gr, S, BfsStep(gr, S, b)) ELSE b.comps

\* what the code derives from the component list
SeqToSet(s) == {s[i] : i \in 1..Len(s)}
LoopsFromComps(gr, cs) ==
   FoldSet(LAMBDA C, a : a + 1 + Cardinality(C) - Cardinality(VertsOf(gr, C)), 0, SeqToSet(cs))
SpanningFromComps(gr, S, cs) ==
   /\ Cardinality(S \cap Massive(gr)) = Cardinality(Massive(gr))
   /\ \E i \in 1..Len(cs) : \A v \in gr.ext : \E e \in cs[i] : v \in EV(gr, e)

(***************************************************************************)
(* The machine                                                             *)
(***************************************************************************)
EmptyTbl == [l |-> <<>>, s |-> <<>>, w |-> <<>>, j |-> <<>>]

NoGraph == [edges |-> <<>>, mass |-> <<>>, w |-> <<>>, wd |-> 2, ext |-> {}, D |-> 0]
Init == /\ g = NoGraph
        /\ pc = "pick_skeleton" /\ sid = 0 /\ bfs = BfsInit({})
        /\ tbl = EmptyTbl /\ dod = 0 /\ nloops = 0
        /\ stack = <<>> /\ ret = NONE /\ cached = [set |-> FALSE] /\ result = "none"
        /\ oracle = [set |-> FALSE]

PickSkeleton ==
   /\ pc = "pick_skeleton"
   /\ \E sk \in Skeletons : g' = [NoGraph EXCEPT !.edges = sk]
   /\ pc' = "pick_graph"
   /\ UNCHANGED <<sid, bfs, tbl, dod, nloops, stack, ret, cached, result, oracle>>
PickGraph ==
   /\ pc = "pick_graph"
   /\ \E gr \in Decorate(g.edges) :
         /\ g' = gr
         /\ oracle' = [set |-> TRUE, ft |-> FullTable(gr), div |-> Divergent(gr), dod |-> Dod(gr),
                       L |-> Loops(gr, Full(gr))]
   /\ pc' = "from_graph"
   /\ UNCHANGED <<sid, bfs, tbl, dod, nloops, stack, ret, cached, result>>

\* TropicalGraph::from_graph: loop number and dod of the full edge list
FromGraph ==
   /\ pc = "from_graph"
   /\ LET cs == BfsRun(g, Full(g), BfsInit(Full(g)))
          L  == IF NE(g) = 0 THEN 0 ELSE LoopsFromComps(g, cs)
      IN /\ nloops' = L
         /\ dod' = WSum(g, Full(g)) - HalfD(g) * L
   /\ pc' = "bfs" /\ bfs' = BfsInit(SetOf(0, NE(g)))
   /\ UNCHANGED <<g, sid, tbl, stack, ret, cached, result, oracle>>

CurS == SetOf(sid, NE(g))

\* one iteration of the while loop of get_connected_components
BfsIter ==
   /\ pc = "bfs" /\ BfsRunning(CurS, bfs)
   /\ bfs' = BfsStep(g, CurS, bfs)
   /\ UNCHANGED <<g, pc, sid, tbl, dod, nloops, stack, ret, cached, result, oracle>>

\* body of the for-loop of generate_from_tropical once the components of CurS are known
FillFlags ==
   /\ pc = "bfs" /\ ~BfsRunning(CurS, bfs)
   /\ LET S    == CurS
          span == SpanningFromComps(g, S, bfs.comps)
          L    == IF S = {} THEN 0 ELSE LoopsFromComps(g, bfs.comps)
          gd   == IF S = {} THEN g.wd
                  ELSE WSum(g, S) - HalfD(g) * L - (IF span THEN dod ELSE 0)
      IN IF gd <= 0 /\ S # {} /\ sid # MaxId(g)
         THEN /\ pc' = "err" /\ result' = "err"             \* early return Err(..)
              /\ UNCHANGED <<tbl, sid, bfs>>
         ELSE /\ tbl' = [tbl EXCEPT !.l = Append(@, L), !.s = Append(@, span),
                                    !.w = Append(@, gd), !.j = Append(@, NONE)]
              /\ IF sid = MaxId(g)
                 THEN /\ pc' = "jfill" /\ UNCHANGED <<sid, bfs>>
                 ELSE /\ sid' = sid + 1 /\ bfs' = BfsInit(SetOf(sid + 1, NE(g))) /\ pc' = "bfs"
              /\ UNCHANGED result
   /\ UNCHANGED <<g, dod, nloops, stack, ret, cached, oracle>>

(* recursive_fill_j_function.  A frame is [id, todo, acc, wait]: the subset, the edges still to
   visit (in increasing order), the partial sum, and the edge whose sub-call is outstanding (0 = none). *)
JStart ==
   /\ pc = "jfill" /\ stack = <<>> /\ ret = NONE
   /\ stack' = <<[id |-> MaxId(g), todo |-> SetOf(MaxId(g), NE(g)), acc |-> Zero, wait |-> 0]>>
   /\ UNCHANGED <<g, pc, sid, bfs, tbl, dod, nloops, ret, cached, result, oracle>>

Top == stack[Len(stack)]
SetTop(f) == [stack EXCEPT ![Len(stack)] = f]

\* entering a call on a subset
JEnterEmpty ==            \* subgraph_id.is_empty(): j = 1, stored
   /\ pc = "jfill" /\ stack # <<>> /\ Top.wait = 0 /\ Top.id = 0
   /\ tbl' = [tbl EXCEPT !.j[1] = One]
   /\ ret' = One /\ stack' = SubSeq(stack, 1, Len(stack) - 1)
   /\ UNCHANGED <<g, pc, sid, bfs, dod, nloops, cached, result, oracle>>

JMemoHit ==               \* table[id].j_function is Some: return it
   /\ pc = "jfill" /\ stack # <<>> /\ Top.wait = 0 /\ Top.id # 0
   /\ Top.todo = SetOf(Top.id, NE(g)) /\ Top.acc = Zero      \* freshly entered frame
   /\ tbl.j[Top.id + 1] # NONE
   /\ ret' = tbl.j[Top.id + 1] /\ stack' = SubSeq(stack, 1, Len(stack) - 1)
   /\ UNCHANGED <<g, pc, sid, bfs, tbl, dod, nloops, cached, result, oracle>>

JPush ==                  \* recurse on id \ {min todo}
   /\ pc = "jfill" /\ stack # <<>> /\ Top.wait = 0 /\ Top.id # 0 /\ Top.todo # {}
   /\ (Top.todo = SetOf(Top.id, NE(g)) /\ Top.acc = Zero) => tbl.j[Top.id + 1] = NONE
   /\ ret = NONE
   /\ LET e   == Min(Top.todo)
          sub == Top.id - Pow2(e - 1)
      IN stack' = Append(SetTop([Top EXCEPT !.wait = e]),
                         [id |-> sub, todo |-> SetOf(sub, NE(g)), acc |-> Zero, wait |-> 0])
   /\ UNCHANGED <<g, pc, sid, bfs, tbl, dod, nloops, ret, cached, result, oracle>>

JAccumulate ==            \* a sub-call returned: acc += ret / omega(sub)
   /\ pc = "jfill" /\ stack # <<>> /\ Top.wait # 0 /\ ret # NONE
   /\ LET e   == Top.wait
          sub == Top.id - Pow2(e - 1)
      IN stack' = SetTop([Top EXCEPT !.acc = RAdd(@, RDiv(ret, <<tbl.w[sub + 1], g.wd>>)),
                                      !.todo = @ \ {e}, !.wait = 0])
   /\ ret' = NONE
   /\ UNCHANGED <<g, pc, sid, bfs, tbl, dod, nloops, cached, result, oracle>>

JPop ==                   \* all edges visited: store and return
   /\ pc = "jfill" /\ stack # <<>> /\ Top.wait = 0 /\ Top.id # 0 /\ Top.todo = {} /\ ret = NONE
   /\ tbl' = [tbl EXCEPT !.j[Top.id + 1] = Top.acc]
   /\ ret' = Top.acc /\ stack' = SubSeq(stack, 1, Len(stack) - 1)
   /\ UNCHANGED <<g, pc, sid, bfs, dod, nloops, cached, result, oracle>>

\* cached_factor = I_tr * Gamma(dod)/prod Gamma(w_e) * pi^(D L / 2): Gamma and pi are symbols
Cache ==
   /\ pc = "jfill" /\ stack = <<>> /\ ret # NONE
   /\ cached' = [set |-> TRUE, itr |-> tbl.j[MaxId(g) + 1], gnum |-> dod,
                 gden |-> g.w, piexp2 |-> g.D * nloops]
   /\ pc' = "done" /\ result' = "ok" /\ ret' = NONE
   /\ UNCHANGED <<g, sid, bfs, tbl, dod, nloops, stack, oracle>>

Terminated == pc \in {"done", "err"} /\ UNCHANGED vars

Next == PickSkeleton \/ PickGraph \/ FromGraph \/ BfsIter \/ FillFlags \/ JStart \/ JEnterEmpty \/ JMemoHit \/ JPush
        \/ JAccumulate \/ JPop \/ Cache \/ Terminated

Spec     == Init /\ [][Next]_vars
FairSpec == Spec /\ WF_vars(Next)

(***************************************************************************)
(* Properties                                                              *)
(***************************************************************************)
TypeOK == /\ pc \in {"pick_skeleton", "pick_graph", "from_graph", "bfs", "jfill", "done", "err"}
          /\ result \in {"none", "ok", "err"}
          /\ sid \in 0..MaxId(g)

\* C03: the finished table is the declarative one, entry by entry; reported quantities agree
TableCorrect ==
   pc = "done" =>
      /\ tbl.l = oracle.ft.l /\ tbl.s = oracle.ft.s /\ tbl.w = oracle.ft.w
      /\ nloops = oracle.L /\ dod = oracle.dod
      /\ Len(tbl.l) = MaxId(g) + 1

\* every entry is right at the moment it is written (the table is filled in id order)
PrefixCorrect ==
   \A i \in 1..Len(tbl.l) :
      tbl.l[i] = oracle.ft.l[i] /\ tbl.s[i] = oracle.ft.s[i] /\ tbl.w[i] = oracle.ft.w[i]

\* the work-list search agrees with the declarative components whenever it has finished
BfsCorrect ==
   (pc = "bfs" /\ ~BfsRunning(CurS, bfs)) => SeqToSet(bfs.comps) = Comps(g, CurS)
\* ... and while running, closed components are components and cur is connected inside one
BfsPartial ==
   pc = "bfs" =>
      /\ \A i \in 1..Len(bfs.comps) : bfs.comps[i] \in Comps(g, CurS)
      /\ bfs.cur # {} => \E C \in Comps(g, CurS) : bfs.cur \subseteq C
      /\ bfs.cur \subseteq bfs.visited /\ bfs.visited \subseteq CurS

\* C04: the memoised recursion computes J of the defining recursion for every subset;
\* J(full) is the sum over all E! orderings; all J > 0; cached factor has the right shape
JCorrect ==
   pc = "done" =>
      LET jt == oracle.ft.j
      IN /\ tbl.j = jt
         /\ \A i \in 1..Len(jt) : ~IsOvf(jt[i]) => RPos(jt[i])
         /\ (~AnyOvf(jt)) => LET ip == ItrPermFrom(g, oracle.ft.w, Full(g))
                             IN IsOvf(ip) \/ ip = jt[MaxId(g) + 1]
         /\ cached = [set |-> TRUE, itr |-> jt[MaxId(g) + 1], gnum |-> oracle.dod,
                      gden |-> g.w, piexp2 |-> g.D * oracle.L]
\* a memo entry, once written, is final and equals the recursion's value
MemoSound ==
   pc = "jfill" =>
      \A i \in 1..Len(tbl.j) : tbl.j[i] # NONE => tbl.j[i] = oracle.ft.j[i]
\* edge probabilities of every subgraph with >= 1 edge sum to one
ProbSumOne ==
   pc = "done" =>
      \A id \in 1..MaxId(g) :
         LET c == Cum(g, tbl.w, tbl.j, id)
         IN AnyOvf(c) \/ c[Len(c)] = One

\* C05: Err exactly for divergent graphs; never any other outcome
RejectIff == /\ (pc = "err"  => oracle.div)
             /\ (pc = "done" => ~oracle.div)
             /\ (result = "ok" <=> pc = "done") /\ (result = "err" <=> pc = "err")
\* early exit is at the first divergent id
FirstDivergent ==
   pc = "err" => /\ oracle.ft.w[sid + 1] <= 0 /\ sid # 0 /\ sid # MaxId(g)
                 /\ \A i \in 1..(sid - 1) : oracle.ft.w[i + 1] > 0
\* the oracle is never written
OracleConst == [][pc \notin {"pick_skeleton", "pick_graph"} => (oracle' = oracle /\ g' = g)]_vars

Termination == <>(pc \in {"done", "err"})
=============================================================================
