------------------------------ MODULE ApiSlots ------------------------------
(***************************************************************************)
(* Why histories matter for C17 / C14 / C05: hidden state that remembers   *)
(* something about "this sampler".  Objects live in memory slots; a slot   *)
(* is reused after its occupant is dropped.  A memo keyed by the ORIGIN of *)
(* a sampler (what it was built from) is sound; a memo keyed by the SLOT   *)
(* (an address) is not: TLC finds build - query - drop - build - query.    *)
(* The recorded API histories therefore contain a slot-reuse phase, and    *)
(* the table replay rebuilds the same graph in other orders / dimensions   *)
(* on the same thread.                                                     *)
(*   KEYED = "origin"  : invariant QuerySound holds                        *)
(*   KEYED = "address" : TLC reports a violation (documented, expected)    *)
(***************************************************************************)
EXTENDS Integers, FiniteSets
CONSTANTS Sids, Origins, Slots, KEYED

VARIABLES obj,      \* [Sids -> [origin, slot] or NoObj]
          memo,     \* hidden state: [key -> remembered dimension or 0]; key = origin or slot
          last      \* last answer given: <<origin of the object asked, value>> or <<>>
svars == <<obj, memo, last>>
NoObj == [origin |-> 0, slot |-> 0]
DimOf(o) == 10 + o                      \* distinct origins have distinct dimensions
Keys == IF KEYED = "origin" THEN Origins ELSE Slots
KeyOf(s) == IF KEYED = "origin" THEN obj[s].origin ELSE obj[s].slot
FreeSlots == Slots \ {obj[s].slot : s \in Sids}

SInit == obj = [s \in Sids |-> NoObj] /\ memo = [k \in Keys |-> 0] /\ last = <<>>
Build(s, o) == /\ obj[s] = NoObj /\ FreeSlots # {}
               /\ \E sl \in FreeSlots : obj' = [obj EXCEPT ![s] = [origin |-> o, slot |-> sl]]
               /\ UNCHANGED <<memo, last>>
Drop(s) == /\ obj[s] # NoObj /\ obj' = [obj EXCEPT ![s] = NoObj] /\ UNCHANGED <<memo, last>>      \* the memo survives
\* get_dimension with a memo: answer what is remembered under the key, else compute and remember
Query(s) == /\ obj[s] # NoObj
            /\ LET k == KeyOf(s) IN
               IF memo[k] # 0 THEN last' = <<obj[s].origin, memo[k]>> /\ memo' = memo
               ELSE last' = <<obj[s].origin, DimOf(obj[s].origin)>> /\ memo' = [memo EXCEPT ![k] = DimOf(obj[s].origin)]
            /\ UNCHANGED obj
SNext == \/ \E s \in Sids, o \in Origins : Build(s, o)
         \/ \E s \in Sids : Drop(s) \/ Query(s)
SSpec == SInit /\ [][SNext]_svars
\* the answer is the dimension of the object asked, whatever happened before
QuerySound == last # <<>> => last[2] = DimOf(last[1])
=============================================================================
