------------------------------- MODULE Matrix -------------------------------
(***************************************************************************)
(* Algorithmic layer for SquareMatrix::decompose_for_tropical              *)
(* (src/matrix.rs): Cholesky factor q (lower), determinant, the nilpotent  *)
(* series for (I+N)^-1, the inverses, the optional stability test.         *)
(*                                                                         *)
(* EXACT MODE  - the code's loops on exact rationals (Rational.tla); one   *)
(* action per loop of the code.  Square roots exist on squares of          *)
(* rationals only, so the mode is used on inputs M = R^T R with R upper    *)
(* triangular with rational entries: then every intermediate is rational   *)
(* and the IEEE computation on small dyadic inputs is exact as well.       *)
(*                                                                         *)
(* CLASS MODE  - outcome classes only (what C16 is about): the class of    *)
(* the pivot product, of the determinant, of the stability residual, and   *)
(* the result.                                                             *)
(***************************************************************************)
EXTENDS Rational, Sequences, FiniteSets, FiniteSetsExt, TLC

\* ------------------------------------------------------------------ rational matrices (Seq of Seq)
Idx(n)        == 1..n
Mat(n, Op(_, _)) == [r \in Idx(n) |-> [c \in Idx(n) |-> Op(r, c)]]
ZeroM(n)      == Mat(n, LAMBDA r, c : Zero)
IdM(n)        == Mat(n, LAMBDA r, c : IF r = c THEN One ELSE Zero)
RSumOver(Op(_), S) == FoldSet(LAMBDA k, a : RAdd(a, Op(k)), Zero, S)
MMul(A, B)    == LET n == Len(A) IN Mat(n, LAMBDA r, c : RSumOver(LAMBDA k : RMul(A[r][k], B[k][c]), Idx(n)))
MAdd(A, B)    == LET n == Len(A) IN Mat(n, LAMBDA r, c : RAdd(A[r][c], B[r][c]))
MSub(A, B)    == LET n == Len(A) IN Mat(n, LAMBDA r, c : RSub(A[r][c], B[r][c]))
MTr(A)        == LET n == Len(A) IN Mat(n, LAMBDA r, c : A[c][r])
MOvf(A)       == \E r \in Idx(Len(A)) : \E c \in Idx(Len(A)) : IsOvf(A[r][c])
IntMat(A)     == LET n == Len(A) IN Mat(n, LAMBDA r, c : I2R(A[r][c]))

\* determinant by cofactor expansion (independent of the algorithm under test)
RMinor(M, r, c) == LET n == Len(M) IN
   [i \in 1..(n - 1) |-> [j \in 1..(n - 1) |-> M[IF i < r THEN i ELSE i + 1][IF j < c THEN j ELSE j + 1]]]
RECURSIVE RDet(_)
RDet(M) == IF Len(M) = 0 THEN One
           ELSE IF Len(M) = 1 THEN M[1][1]
           ELSE RSumOver(LAMBDA j : RMul(IF j % 2 = 1 THEN M[1][j] ELSE RNeg(M[1][j]), RDet(RMinor(M, 1, j))), Idx(Len(M)))

(***************************************************************************)
(* EXACT MODE                                                              *)
(***************************************************************************)
VARIABLES
   M,      \* input matrix (rationals), symmetric
   n,      \* dimension
   pc,     \* "chol" | "det" | "nmat" | "powers" | "altsum" | "invq" | "finish" | "stability" | "ok" | "zerodet" | "unstable" | "undefined"
   i,      \* loop index of the current loop
   q,      \* Cholesky factor under construction (lower triangular)
   detq,   \* product of the pivots
   invd,   \* inverses of the pivots
   nm,     \* N, with Q = D (I + N)
   pw,     \* <<N, N^2, ...>>
   acc,    \* alternating sum  -N + N^2 - ...
   res,    \* [det, inv, qt, qti]
   tol     \* stability tolerance: <<"none">> or <<"some", r>>

mvars == <<M, n, pc, i, q, detq, invd, nm, pw, acc, res, tol>>

NoRes == [det |-> Zero, inv |-> <<>>, qt |-> <<>>, qti |-> <<>>]
MInit(m, t) ==
   /\ M = m /\ n = Len(m) /\ pc = "chol" /\ i = 1 /\ q = ZeroM(Len(m)) /\ detq = One /\ invd = <<>>
   /\ nm = <<>> /\ pw = <<>> /\ acc = <<>> /\ res = NoRes /\ tol = t

\* outer loop body of the Cholesky decomposition for row/column i  (matrix.rs: `for i in 0..self.dim`)
CholRow ==
   /\ pc = "chol" /\ i <= n
   /\ LET dsq == RSub(M[i][i], RSumOver(LAMBDA j : RMul(q[i][j], q[i][j]), 1..(i - 1)))
          d   == RSqrt(dsq)
      IN IF IsOvf(d)
         THEN pc' = "undefined" /\ UNCHANGED <<q, i>>        \* pivot^2 not a rational square (or negative): outside exact mode
         ELSE /\ q' = [r \in Idx(n) |->
                        IF r = i THEN [q[r] EXCEPT ![i] = d]
                        ELSE IF r > i
                        THEN [q[r] EXCEPT ![i] =
                                 IF d = Zero THEN OVF           \* x/0: NaN or inf in IEEE; poisons what follows
                                 ELSE RDiv(RSub(M[i][r], RSumOver(LAMBDA k : RMul(q[i][k], q[r][k]), 1..(i - 1))), d)]
                        ELSE q[r]]
              /\ i' = i + 1
              /\ pc' = IF i = n THEN "det" ELSE "chol"
   /\ UNCHANGED <<M, n, detq, invd, nm, pw, acc, res, tol>>

\* det_q = prod q_ii ; inverse_diagonal_entries ; ZeroDet check on det_q
DetStep ==
   /\ pc = "det"
   /\ LET dq == FoldSet(LAMBDA k, a : RMul(a, q[k][k]), One, Idx(n))
      IN /\ detq' = dq
         /\ invd' = [k \in Idx(n) |-> RInv(q[k][k])]
         /\ pc' = IF dq = Zero THEN "zerodet" ELSE IF IsOvf(dq) THEN "undefined" ELSE "nmat"
   /\ i' = 1
   /\ UNCHANGED <<M, n, q, nm, pw, acc, res, tol>>

\* N[row][col] = q[row][col] / q[row][row]  for col < row
NMat ==
   /\ pc = "nmat"
   /\ nm' = Mat(n, LAMBDA r, c : IF c < r THEN RMul(invd[r], q[r][c]) ELSE Zero)
   /\ pw' = <<>> /\ pc' = "powers" /\ i' = 1
   /\ UNCHANGED <<M, n, q, detq, invd, acc, res, tol>>

\* powers_of_n: N, N^2, ..., N^(n-1)   (each = previous * N)
PowerStep ==
   /\ pc = "powers"
   /\ IF pw = <<>> THEN pw' = <<nm>> ELSE pw' = Append(pw, MMul(pw[Len(pw)], pw[1]))
   /\ pc' = IF Len(pw) + 1 >= Max({1, n - 1}) THEN "altsum" ELSE "powers"
   /\ UNCHANGED <<M, n, i, q, detq, invd, nm, acc, res, tol>>

\* n_sum = -N + N^2 - N^3 ...   (index 0 subtracts)
RECURSIVE AltFrom(_, _, _)
AltFrom(ps, k, a) == IF k > Len(ps) THEN a
                     ELSE AltFrom(ps, k + 1, IF k % 2 = 1 THEN MSub(a, ps[k]) ELSE MAdd(a, ps[k]))
AltSum ==
   /\ pc = "altsum"
   /\ acc' = AltFrom(pw, 1, ZeroM(n))
   /\ pc' = "invq"
   /\ UNCHANGED <<M, n, i, q, detq, invd, nm, pw, res, tol>>

\* inverse_q = (I + n_sum) * D^-1 (column scaling) ; transposes ; inverse = Q^-T Q^-1 ; determinant = det_q^2
Finish ==
   /\ pc = "invq"
   /\ LET iq  == Mat(n, LAMBDA r, c : RMul(RAdd(acc[r][c], IF r = c THEN One ELSE Zero), invd[c]))
          qti == MTr(iq)
      IN res' = [det |-> RMul(detq, detq), inv |-> MMul(qti, iq), qt |-> MTr(q), qti |-> qti]
   /\ pc' = IF tol[1] = "none" THEN "ok" ELSE "stability"
   /\ UNCHANGED <<M, n, i, q, detq, invd, nm, pw, acc, tol>>

\* L_{2,1} distance of inverse * M from the identity, squared column norms (exact): ok iff every column is exact
Stability ==
   /\ pc = "stability"
   /\ LET z == MSub(MMul(res.inv, M), IdM(n))
      IN pc' = IF z = ZeroM(n) THEN "ok" ELSE "unstable"
   /\ UNCHANGED <<M, n, i, q, detq, invd, nm, pw, acc, res, tol>>

MDone == pc \in {"ok", "zerodet", "unstable", "undefined"} /\ UNCHANGED mvars
MNext == CholRow \/ DetStep \/ NMat \/ PowerStep \/ AltSum \/ Finish \/ Stability \/ MDone
MSpec(m, t) == MInit(m, t) /\ [][MNext]_mvars

\* ------------------------------------------------------------------ properties (C15)
\* during the factorisation: rows < i are final, lower triangular, q q^T agrees with M on the finished part
CholPartial ==
   pc = "chol" =>
      \A r \in 1..(i - 1) : \A c \in 1..(i - 1) :
         /\ (c > r => q[r][c] = Zero)
         /\ RSumOver(LAMBDA k : RMul(q[r][k], q[c][k]), Idx(n)) = M[r][c]
ExactOK ==
   (pc = "ok" /\ ~MOvf(res.inv) /\ ~MOvf(res.qti) /\ ~IsOvf(res.det)) =>
      /\ \A r, c \in Idx(n) : r > c => res.qt[r][c] = Zero                 \* upper triangular
      /\ \A r \in Idx(n) : RPos(res.qt[r][r])                              \* positive diagonal
      /\ MMul(MTr(res.qt), res.qt) = M                                      \* Qt^T Qt = M
      /\ MMul(res.qti, res.qt) = IdM(n)                                     \* Qt^-1
      /\ MMul(res.inv, M) = IdM(n)                                          \* M^-1
      /\ res.det = RDet(M)                                                  \* determinant
      /\ res.inv = MTr(res.inv)
\* the nilpotent series is exact: N^n = 0
Nilpotent == pc = "altsum" => (MOvf(pw[Len(pw)]) \/ MMul(pw[Len(pw)], nm) = ZeroM(n))
ZeroDetSound == pc = "zerodet" => RDet(M) = Zero
OkNonSingular == pc = "ok" => (IsOvf(res.det) \/ (res.det # Zero /\ RDet(M) # Zero))
MTermination == <>(pc \in {"ok", "zerodet", "unstable", "undefined"})

(***************************************************************************)
(* CLASS MODE (C16): what may be returned for which classes.               *)
(*   dq   class of the pivot product det_q     : "zero" | "nonzero" | "nan"*)
(*   det  class of the returned determinant    : "zero" | "pos" | "nan" | "inf" | "neg" *)
(*   tolc "none" | "some"                                                  *)
(*   err  class of the stability residual vs. tol: "le" | "border" | "gt" | "nan" | "na" *)
(*   nan  whether the decomposition contains a NaN                         *)
(*   r    "Ok" | "ZeroDet" | "Unstable"                                    *)
(* ClassOK is the property; ClassAsCodedBefore describes the code before   *)
(* the fix: commits (`error > tol` is false for NaN; det_q^2 may underflow)*)
(***************************************************************************)
ClassOK(dq, det, tolc, err, nan, r) ==
   /\ (dq = "zero" => r = "ZeroDet")
   /\ (r = "Ok" => det # "zero")
   /\ (r = "Ok" /\ tolc = "some") => (err \in {"le", "border"} /\ ~nan)
ClassAsCodedBefore(dq, det, tolc, err, nan, r) ==
   /\ (dq = "zero" <=> r = "ZeroDet")
   /\ (r = "Unstable" <=> (dq # "zero" /\ tolc = "some" /\ err \in {"gt", "border"}))
=============================================================================
