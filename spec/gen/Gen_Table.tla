----------------------------- MODULE Gen_Table -----------------------------
(***************************************************************************)
(* Behaviour generator (binding mode R) for C03, C04, C05, C06:            *)
(* enumerates the graphs of G(V, EMIN..EMAX) and prints, for each selected *)
(* one, a line REPLAY <json> with the input and the specification's exact  *)
(* expectation: the full table (loop number, spanning flag, omega in units *)
(* of 1/wd, J as exact rationals), divergence verdict, dod, L, dimension,  *)
(* and for every subset with >= 2 edges the exact cumulative edge          *)
(* probabilities.  Selection: a graph is printed iff Hash(g) % STRIDE =    *)
(* OFFSET (STRIDE = 1: all).  The skeleton is chosen in one step and the   *)
(* decorations in a second one so that TLC's workers share the load.       *)
(***************************************************************************)
EXTENDS Expect, GraphGen, TLC, Json
CONSTANTS V, EMIN, EMAX, WSET, WD, DSET, EXTV, STRIDE, OFFSET

VARIABLE st

Init == st = <<"root">>
Next == \/ /\ st[1] = "root"
           /\ \E n \in EMIN..EMAX : \E es \in EdgeSeqs(V, n) : st' = <<"sk", es>>
        \/ /\ st[1] = "sk"
           /\ LET n == Len(st[2]) IN
              \E m \in MassPats(n), w \in WeightPats(n, WSET), x \in SUBSET (1..EXTV), d \in DSET :
                 LET g == [edges |-> st[2], mass |-> m, w |-> w, wd |-> WD, ext |-> x, D |-> d]
                 IN Hash(g) % STRIDE = OFFSET /\ st' = <<"g", g>>
Emit == st[1] = "g" => PrintT(<<"REPLAY", ToJson(TableExpect(st[2]))>>)
Spec == Init /\ [][Next]_st
=============================================================================
