----------------------------- MODULE Gen_Table -----------------------------
(***************************************************************************)
(* Behaviour generator (binding mode R) for C03, C04, C05, C06:            *)
(* enumerates the graphs of G(V, EMIN..EMAX) and prints, for each selected *)
(* one, a line REPLAY <json> with the input and the specification's exact  *)
(* expectation: the full table (loop number, spanning flag, omega in units *)
(* of 1/wd, J as exact rationals), divergence verdict, dod, L, dimension,  *)
(* and for every subset with >= 2 edges the exact cumulative edge          *)
(* probabilities.  Selection: a graph is printed iff Hash(g) % STRIDE =    *)
(* OFFSET (STRIDE = 1: all).  The skeleton is chosen in one step and the   *)
(* decorations in a second one so that TLC's workers share the load.       *)
(***************************************************************************)
EXTENDS TropGraph, GraphGen, TLC, Json, SequencesExt
CONSTANTS V, EMIN, EMAX, WSET, WD, DSET, EXTV, STRIDE, OFFSET

VARIABLE st
P == 32749
RECURSIVE HSeq(_, _, _)
HSeq(s, i, h) == IF i > Len(s) THEN h ELSE HSeq(s, i + 1, (h * 31 + s[i]) % P)
Hash(g) == LET h1 == HSeq([i \in 1..NE(g) |-> g.edges[i][1] * 5 + g.edges[i][2]], 1, 7)
               h2 == HSeq([i \in 1..NE(g) |-> IF g.mass[i] THEN 2 ELSE 1], 1, h1)
               h3 == HSeq(g.w, 1, h2)
               h4 == (h3 * 31 + IdOf(g.ext)) % P
           IN (h4 * 31 + g.D) % P

Expect(g) ==
   LET gd  == GDodTab(g)
       div == \E id \in 1..(MaxId(g) - 1) : gd[id + 1] <= 0
       jt  == IF div THEN <<>> ELSE JTab(g, gd)
       cum == IF div THEN <<>>
              ELSE SeqTab(LAMBDA id : IF Cardinality(SetOf(id, NE(g))) >= 2
                                      THEN Cum(g, gd, jt, id) ELSE <<>>, MaxId(g))
   IN [g |-> [edges |-> g.edges, mass |-> g.mass, w |-> g.w, wd |-> g.wd,
              ext |-> SetToSortSeq(g.ext, <), D |-> g.D],
       div |-> div, near |-> (\E id \in 1..(MaxId(g) - 1) : gd[id + 1] = 0) /\ WD \notin {1, 2, 4, 8, 16},
       l |-> LoopTab(g), s |-> SpanTab(g), w |-> gd, j |-> jt, cum |-> cum,
       dod |-> Dod(g), L |-> Loops(g, Full(g)), dim |-> Dim(g), E |-> NE(g)]

Init == st = <<"root">>
Next == \/ /\ st[1] = "root"
           /\ \E n \in EMIN..EMAX : \E es \in EdgeSeqs(V, n) : st' = <<"sk", es>>
        \/ /\ st[1] = "sk"
           /\ LET n == Len(st[2]) IN
              \E m \in MassPats(n), w \in WeightPats(n, WSET), x \in SUBSET (1..EXTV), d \in DSET :
                 LET g == [edges |-> st[2], mass |-> m, w |-> w, wd |-> WD, ext |-> x, D |-> d]
                 IN Hash(g) % STRIDE = OFFSET /\ st' = <<"g", g>>
Emit == st[1] = "g" => PrintT(<<"REPLAY", ToJson(Expect(st[2]))>>)
Spec == Init /\ [][Next]_st
=============================================================================
