---------------------------- MODULE Gen_Routing ----------------------------
(***************************************************************************)
(* Behaviour generator (binding mode R) for the sample-level properties     *)
(* C02, C06-C13: a connected graph with masses, a reference edge flow       *)
(* (which fixes the external momenta and the external vertices), weights    *)
(* and D such that the sampler accepts it, several loop-momentum routings   *)
(* of the SAME kinematics (cycle basis from a spanning tree, unimodular     *)
(* change of basis, edge re-orientations, constant loop-momentum offsets),  *)
(* and the specification's expectation:                                     *)
(*   - the exact table of the graph (as Gen_Table),                         *)
(*   - U as the list of spanning-tree monomials,                            *)
(*   - F as the list of 2-forest monomials with integer coefficients and    *)
(*     the mass-squared monomials,                                          *)
(*   - N_T, c_min, C_sum, and whether the kinematics is generic.            *)
(* Edge sets are printed as bit-mask ids.  MODE = "enum": skeletons of      *)
(* G(V, EMIN..EMAX); MODE = "cat": the named catalogue.                     *)
(***************************************************************************)
EXTENDS Symanzik, Expect, GraphGen, Catalogue, TLC, Json, SequencesExt
CONSTANTS MODE, V, EMIN, EMAX, LMIN, LMAX, WSET, WD, DSET, PK, MSET, NROUT, NSAMP, STRIDE, OFFSET, NSK

VARIABLE st
PS == (-PK)..PK     \* components of the reference flow (cfg files cannot hold negative integers)
Vec(dd) == [1..dd -> PS]

Skel(es) == [edges |-> es, mass |-> [i \in 1..Len(es) |-> FALSE], w |-> [i \in 1..Len(es) |-> WD],
             wd |-> WD, ext |-> {}, D |-> 1]
SkelOK(es) == LET g == Skel(es) IN Connected(g) /\ Loops(g, Full(g)) >= LMIN /\ Loops(g, Full(g)) <= LMAX

\* a proper non-empty subset of the externals never has zero total momentum
Generic(g, p0, dd) == \A W \in SUBSET g.ext : (W # {} /\ W # g.ext) => PIn(g, p0, W, dd) # VZero(dd)

Decorated(es, m, p0, w, d) ==
   [edges |-> es, mass |-> [i \in 1..Len(es) |-> m[i] > 0], w |-> w, wd |-> WD,
    ext |-> ExtOf(Skel(es), p0, d), D |-> d]

\* a routing: tree, basis change, flips, offsets  ->  signature rows and shifts
Routing(g, p0, T, A, R, c, dd) ==
   LET s0 == FundSig(g, T)
       s1 == Flip(SigTimes(s0, A), R)
   IN [sig |-> [e \in 1..NE(g) |-> s1[e]], p |-> [e \in 1..NE(g) |-> Offset(s1, FlipP(p0, R), c, dd)[e]]]
Poly(g, p0, m, dd) ==
   LET m2 == [e \in Full(g) |-> m[e] * m[e]]
       b  == FCoefBag(g, p0, m2, dd)
   IN [utrees |-> SetToSeq({IdOf(Full(g) \ T) : T \in Trees(g)}),
       f2 |-> SetToSeq({<<b.sq[F], IdOf(Full(g) \ F)>> : F \in DOMAIN b.sq}),
       fm |-> SetToSeq({<<b.ms[t], IdOf(Full(g) \ t[1]), t[2]>> : t \in DOMAIN b.ms}),
       NT |-> NT(g),
       cmin |-> IF FCoefValues(g, p0, m2, dd) \ {0} = {} THEN 0 ELSE Cmin(g, p0, m2, dd),
       csum |-> Csum(g, p0, m2, dd)]

Line(g, m, p0, name, rt) ==
   LET dd == g.D
       te == TableExpect(g)
       po == Poly(g, p0, m, dd)
   IN [g |-> te.g, div |-> te.div, near |-> te.near, l |-> te.l, s |-> te.s, w |-> te.w, j |-> te.j, cum |-> te.cum,
       dod |-> te.dod, L |-> te.L, dim |-> te.dim, E |-> te.E,
       name |-> name, m |-> m, p0 |-> p0, generic |-> Generic(g, p0, dd) /\ po.cmin > 0,
       routings |-> [r \in 1..NROUT |-> Routing(g, p0, rt[r].T, rt[r].A, rt[r].R, rt[r].c, dd)],
       utrees |-> po.utrees, f2 |-> po.f2, fm |-> po.fm, NT |-> po.NT, cmin |-> po.cmin, csum |-> po.csum]

Init == st = [k |-> "root"]
PickEnum ==
   /\ MODE = "enum" /\ st.k = "root"
   /\ \E n \in EMIN..EMAX : \E es \in EdgeSeqs(V, n) :
        /\ HSeq([i \in 1..n |-> es[i][1] * 7 + es[i][2]], 1, 3) % STRIDE = OFFSET
        /\ SkelOK(es) /\ st' = [k |-> "sk", es |-> es, name |-> "enum"]
PickCat ==
   /\ MODE = "cat" /\ st.k = "root"
   /\ \E i \in 1..Len(CatalogueGraphs) :
        LET c == CatalogueGraphs[i] IN
        /\ Len(c.edges) >= EMIN /\ Len(c.edges) <= EMAX /\ SkelOK(c.edges)
        /\ st' = [k |-> "sk", es |-> c.edges, name |-> c.name]
\* MODE = "rand": NSK random edge sequences with EMIN..EMAX edges over V labels (frozen in a state first), kept when
\* they are connected with LMIN..LMAX loops - larger and less regular topologies than the enumeration reaches
PairSeqR == SetToSeq(Pairs(V))
PickRandRaw ==
   /\ MODE = "rand" /\ st.k = "root"
   /\ \E i \in 1..NSK :
        st' = [k |-> "rawsk", i |-> i, n |-> RandomElement(EMIN..EMAX),
               es |-> [e \in 1..EMAX |-> PairSeqR[RandomElement(1..Len(PairSeqR))]]]
PickRandSk ==
   /\ st.k = "rawsk"
   /\ LET es == SubSeq(st.es, 1, st.n) IN SkelOK(es) /\ st' = [k |-> "sk", es |-> es, name |-> "rand"]
\* decorations: NSAMP random draws per skeleton (masses, reference flow, weights, D); the accepted
\* ones are emitted.  (Exhaustive enumeration of the decorations is hopeless: 4 million per 3-edge
\* skeleton; the exhaustive part of the argument is MC_Symanzik / MC_TropBound.)
\* (RandomElement is re-evaluated at every use of a LET name, so the draws are first frozen in a state
\*  and only then combined)
Draw ==
   /\ st.k = "sk"
   /\ LET n == Len(st.es) IN
      \E i \in 1..NSAMP :
         st' = [k |-> "num", es |-> st.es, name |-> st.name, i |-> i,
                d |-> RandomElement(DSET),
                m |-> [e \in 1..n |-> RandomElement(MSET)],
                pmax |-> [e \in 1..n |-> [c \in 1..6 |-> RandomElement(PS)]],
                w |-> [e \in 1..n |-> RandomElement(WSET)],
                \* the order in which the edges are listed is part of the input: a random permutation of the skeleton ...
                key |-> [e \in 1..n |-> RandomElement(1..1000)],
                \* ... and every other draw a sparse reference flow (few external vertices, some of them far from edge 1)
                sparse |-> RandomElement({TRUE, FALSE, FALSE, FALSE}),
                mask |-> [e \in 1..n |-> RandomElement({0, 1})],
                \* ... and every fourth draw a flow along ONE coordinate axis (all momenta parallel, e.g. a rest frame): a defect
                \* that drops or repeats particular components of the D-vectors then loses or doubles the whole kinematics
                axis |-> RandomElement({0, 0, 0, 1}) * RandomElement(1..6)]
Decorate ==
   /\ st.k = "num"
   /\ LET n  == Len(st.es)
          perm == SortSeq([i \in 1..n |-> i], LAMBDA a, b : st.key[a] < st.key[b] \/ (st.key[a] = st.key[b] /\ a < b))
          es == [i \in 1..n |-> st.es[perm[i]]]
          ax == IF st.axis = 0 THEN 0 ELSE 1 + (st.axis % st.d)
          p0 == [e \in 1..n |-> [c \in 1..st.d |->
                   IF ax # 0 THEN (IF c = ax THEN st.pmax[e][c] ELSE 0)
                   ELSE IF st.sparse THEN st.mask[e] * st.pmax[e][c] ELSE st.pmax[e][c]]]
          g  == Decorated(es, st.m, p0, st.w, st.d)
      IN /\ Accepted(g)
         /\ st' = [k |-> "g", g |-> g, m |-> st.m, p0 |-> p0, name |-> st.name]
\* a fixed "chain" change of basis for L >= 3: new_1 = c_2 - c_3, new_2 = c_1 - c_2, new_j = c_j - c_(j+1), new_L = c_L.
\* On multi-loop graphs it produces loops that share no edge with each other but each share one with the loop
\* listed first (exact zeros in L away from the first row, fill-in in its Cholesky factor).
ChainA(L) == [k \in 1..L |-> [l \in 1..L |->
                IF l = 1 THEN (IF k = 2 THEN 1 ELSE IF k = 3 THEN -1 ELSE 0)
                ELSE IF l = 2 THEN (IF k = 1 THEN 1 ELSE IF k = 2 THEN -1 ELSE 0)
                ELSE IF l = L THEN (IF k = L THEN 1 ELSE 0)
                ELSE (IF k = l THEN 1 ELSE IF k = l + 1 THEN -1 ELSE 0)]]
\* a fixed "path numbered out of order" change of basis for L >= 4: new_1 = c_1, new_2 = c_1 + c_2, new_4 = c_2 + c_3,
\* new_3 = c_3 + c_4, new_j = c_j (j > 4); determinant -1.  On loops that are decoupled in the tree basis (chains of bubbles) the
\* new loops overlap along the path 1 - 2 - 4 - 3: L_12, L_24, L_34 are the only non-zero off-diagonal entries, the Cholesky
\* factor has no fill-in, and N^2 = (N_42 N_21) e_4 e_1^T lies entirely below its second sub-diagonal.
PathA(L) == [k \in 1..L |-> [l \in 1..L |->
                IF l = 1 THEN (IF k = 1 THEN 1 ELSE 0)
                ELSE IF l = 2 THEN (IF k \in {1, 2} THEN 1 ELSE 0)
                ELSE IF l = 3 THEN (IF k \in {3, 4} THEN 1 ELSE 0)
                ELSE IF l = 4 THEN (IF k \in {2, 3} THEN 1 ELSE 0)
                ELSE (IF k = l THEN 1 ELSE 0)]]
\* the routings are drawn into the state as well
Route ==
   /\ st.k = "g"
   /\ LET g == st.g  L == Loops(g, Full(g))  dd == g.D IN
      st' = [k |-> "r", g |-> g, m |-> st.m, p0 |-> st.p0, name |-> st.name,
             rt |-> [r \in 1..NROUT |->
                      [T |-> IF r = 1 THEN CHOOSE T \in Trees(g) : TRUE ELSE RandomElement(Trees(g)),
                       A |-> IF r = 1 THEN [i \in 1..L |-> [j \in 1..L |-> IF i = j THEN 1 ELSE 0]]
                             ELSE IF r = NROUT /\ L >= 3 THEN ChainA(L)
                             ELSE IF L > 3 THEN PathA(L)
                             ELSE RandomElement(GL(L)),
                       R |-> IF r = 1 THEN {} ELSE RandomElement(SUBSET Full(g)),
                       c |-> [l \in 1..L |-> [i \in 1..dd |-> IF r = 1 THEN 0 ELSE RandomElement(-1..1)]]]]]
Next == PickEnum \/ PickCat \/ PickRandRaw \/ PickRandSk \/ Draw \/ Decorate \/ Route
Spec == Init /\ [][Next]_st
Emit == st.k = "r" => PrintT(<<"REPLAY", ToJson(Line(st.g, st.m, st.p0, st.name, st.rt))>>)
=============================================================================
