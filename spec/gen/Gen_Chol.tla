------------------------------ MODULE Gen_Chol ------------------------------
(* Behaviour generator (mode R) for C15 / C16: runs the exact-mode Matrix machine on M = R^T R and prints,
   when it terminates, the integer matrix and the exact outcome: determinant, inverse, Cholesky factor and
   its inverse as rationals (exactness scope: the IEEE computation on these inputs has no rounding when the
   diagonal of R is a power of two), or the ZeroDet verdict for singular inputs. *)
EXTENDS MC_Matrix, Json
CONSTANTS STRIDE, OFFSET
RECURSIVE HRows(_, _, _)
HRows(s, k, h) == IF k > Len(s) THEN h
                  ELSE HRows(s, k + 1, FoldSet(LAMBDA c, a : (a * 31 + s[k][c] + 7) % 32749, h, 1..Len(s[k])))
Sel == HRows(SubSeq(rr, 2, Len(rr)), 1, 17) % STRIDE = OFFSET
IntOf(m) == [r \in 1..Len(m) |-> [c \in 1..Len(m) |-> m[r][c][1]]]
Emit == (phase = "run" /\ pc \in {"ok", "zerodet", "unstable"} /\ Sel) =>
   PrintT(<<"REPLAY", ToJson([n |-> n, M |-> IntOf(M), R |-> SubSeq(rr, 2, Len(rr)), outcome |-> pc, tol |-> tol[1],
                               det |-> res.det, inv |-> res.inv, qt |-> res.qt, qti |-> res.qti,
                               ovf |-> IF pc = "ok" THEN MOvf(res.inv) \/ MOvf(res.qti) \/ IsOvf(res.det) ELSE FALSE])>>)
=============================================================================
