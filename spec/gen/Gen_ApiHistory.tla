--------------------------- MODULE Gen_ApiHistory ---------------------------
(***************************************************************************)
(* Behaviour generator (mode R) for C17 / C18: TLC (in -simulate mode)      *)
(* walks random behaviours of Api.tla and prints each one as a history of   *)
(* API actions - which objects are built from which origin, cloned,         *)
(* serialised and deserialised, which sample calls start and finish on      *)
(* which thread in which order (calls overlap: several may be in flight).   *)
(* The harness executes the history on real objects (a thread per call in   *)
(* flight, started at Begin and joined at End) and the recorded outcome is  *)
(* validated by Trace_Api.                                                  *)
(***************************************************************************)
EXTENDS Api, Sequences, Json
CONSTANT DEPTH
VARIABLE hist
hvars == <<avars, hist>>

HInit == AInit /\ hist = <<>>
Log(e) == hist' = Append(hist, e)
HNext ==
   /\ Len(hist) < DEPTH
   /\ \/ \E s \in Sids, o \in Origins : Build(s, o) /\ Log([a |-> "Build", sid |-> s, origin |-> o])
      \/ \E s, s2 \in Sids : Clone(s, s2) /\ Log([a |-> "Clone", sid |-> s2, from |-> s])
      \/ \E s \in Sids, b \in Blobs : Serialize(s, b) /\ Log([a |-> "Ser", sid |-> s, blob |-> b])
      \/ \E b \in Blobs, s \in Sids : Deserialize(b, s) /\ Log([a |-> "De", blob |-> b, sid |-> s])
      \/ \E t \in Threads, s \in Sids, a \in Args : Begin(t, s, a) /\ Log([a |-> "Begin", t |-> t, sid |-> s, arg |-> a])
      \/ \E t \in Threads, r \in Digests : End(t, r) /\ Log([a |-> "End", t |-> t])
HSpec == HInit /\ [][HNext]_hvars
\* a history is printed when it reaches DEPTH actions and contains at least three sample calls
NSamples == Len(SelectSeq(hist, LAMBDA e : e.a = "Begin"))
Emit == (Len(hist) = DEPTH /\ NSamples >= 3) => PrintT(<<"REPLAY", ToJson([history |-> hist])>>)
=============================================================================
