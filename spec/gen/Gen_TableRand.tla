--------------------------- MODULE Gen_TableRand ---------------------------
(***************************************************************************)
(* Behaviour generator (mode R / O) for C03-C05 on LARGER multigraphs than  *)
(* the enumerating generator reaches: NSAMP random multigraphs with         *)
(* EMIN..EMAX edges over V vertex labels (self-loops, parallel edges,       *)
(* disconnected pieces, externals that no edge touches), random masses,     *)
(* weights and D.  The draws are frozen in a state first (RandomElement in  *)
(* a LET is re-evaluated at every use), then the exact table is printed.    *)
(***************************************************************************)
EXTENDS Expect, GraphGen, TLC, Json
CONSTANTS V, EMIN, EMAX, WSET, WD, DSET, EXTV, NSAMP
VARIABLE st
PairSeq == SetToSeq(Pairs(V))
Init == st = [k |-> "root"]
Draw == /\ st.k = "root"
        /\ \E i \in 1..NSAMP :
             st' = [k |-> "raw", i |-> i, n |-> RandomElement(EMIN..EMAX),
                    es |-> [e \in 1..EMAX |-> PairSeq[RandomElement(1..Len(PairSeq))]],
                    m |-> [e \in 1..EMAX |-> RandomElement({TRUE, FALSE, FALSE})],
                    w |-> [e \in 1..EMAX |-> RandomElement(WSET)],
                    x |-> RandomElement(SUBSET (1..EXTV)), d |-> RandomElement(DSET)]
Make == /\ st.k = "raw"
        /\ st' = [k |-> "g", g |-> [edges |-> SubSeq(st.es, 1, st.n), mass |-> SubSeq(st.m, 1, st.n), w |-> SubSeq(st.w, 1, st.n),
                                    wd |-> WD, ext |-> st.x, D |-> st.d]]
Next == Draw \/ Make
Spec == Init /\ [][Next]_st
Emit == st.k = "g" => PrintT(<<"REPLAY", ToJson(TableExpect(st.g))>>)
=============================================================================
