----------------------------- MODULE Gen_Sector -----------------------------
(***************************************************************************)
(* Behaviour generator (mode R) for the sector loop of Sample.tla: runs     *)
(* the Sample machine (via MC_Sample) and, every time a behaviour finishes  *)
(* the sector loop (pc = "rescale"), prints the behaviour's abstract state: *)
(* the removal order, for each step the exact probability interval of the   *)
(* chosen edge (so that the harness can steer the real sampler along the    *)
(* same behaviour), the omega of each remaining graph (exponents of the xi  *)
(* factors), the edges multiplied into u_trop, the edge giving v_trop.      *)
(* The harness replays the behaviour and compares the projected state of    *)
(* the real call bit for bit.                                               *)
(***************************************************************************)
EXTENDS MC_Sample, Json, SequencesExt
CONSTANTS STRIDE, OFFSET

RECURSIVE HS(_, _, _)
HS(s, i, h) == IF i > Len(s) THEN h ELSE HS(s, i + 1, (h * 31 + s[i]) % 32749)
Sel == LET h0 == HS([i \in 1..E |-> g.edges[i][1] * 5 + g.edges[i][2]], 1, 7)
           h1 == HS(g.w, 1, h0)
           h2 == HS(order, 1, (h1 * 31 + IdOf(g.ext) + 3 * g.D + 7 * IdOf(Massive(g))) % 32749)
       IN h2 % STRIDE = OFFSET

Before(k) == IdOf(Full(g) \ {order[i] : i \in 1..(k - 1)})
Steer == [k \in 1..(E - 1) |->
            LET id  == Before(k)
                c   == Cum(g, tab.w, tab.j, id)
                pos == Cardinality({f \in SetOf(id, E) : f <= order[k]})
            IN <<IF pos = 1 THEN Zero ELSE c[pos - 1], c[pos]>>]
\* edges multiplied into u_trop, in removal order
UtrSeq == SelectSeq(order, LAMBDA e : e \in utrE)

EmitSector ==
   (~Picking /\ pc = "rescale" /\ ~cfg.stab /\ ~cfg.debug /\ Sel) =>
      PrintT(<<"REPLAY", ToJson([g |-> [edges |-> g.edges, mass |-> g.mass, w |-> g.w, wd |-> g.wd,
                                          ext |-> SetToSortSeq(g.ext, <), D |-> g.D],
                                   L |-> L, dod |-> Dod(g), order |-> order, steer |-> Steer, om |-> om,
                                   utr |-> UtrSeq, vtr |-> vtrE, nxi |-> nxi, dim |-> DimX])>>)
=============================================================================
