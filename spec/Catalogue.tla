------------------------------ MODULE Catalogue ------------------------------
(* Named connected "physics" topologies (edge sequences over vertex labels 1..6). *)
EXTENDS Integers, Sequences
Banana(n) == [i \in 1..n |-> <<1, 2>>]
Polygon(n) == [i \in 1..n |-> <<i, IF i = n THEN 1 ELSE i + 1>>]
CatalogueGraphs == <<
   [name |-> "bubble",      edges |-> Banana(2)],
   [name |-> "sunrise",     edges |-> Banana(3)],
   [name |-> "banana3",     edges |-> Banana(4)],
   [name |-> "banana4",     edges |-> Banana(5)],
   [name |-> "banana5",     edges |-> Banana(6)],
   [name |-> "triangle",    edges |-> Polygon(3)],
   [name |-> "box",         edges |-> Polygon(4)],
   [name |-> "pentagon",    edges |-> Polygon(5)],
   [name |-> "hexagon",     edges |-> Polygon(6)],
   [name |-> "tadpole",     edges |-> << <<1, 1>> >>],
   [name |-> "figure8",     edges |-> << <<1, 1>>, <<1, 1>> >>],
   [name |-> "tri_selfloop", edges |-> << <<1, 2>>, <<2, 3>>, <<3, 1>>, <<2, 2>> >>],
   [name |-> "bubblechain", edges |-> << <<1, 2>>, <<1, 2>>, <<2, 3>>, <<2, 3>> >>],
   [name |-> "doubletri",   edges |-> << <<1, 2>>, <<2, 3>>, <<3, 1>>, <<1, 3>> >>],
   [name |-> "boxdiag",     edges |-> << <<1, 2>>, <<2, 3>>, <<3, 4>>, <<4, 1>>, <<1, 3>> >>],
   [name |-> "kite",        edges |-> << <<1, 2>>, <<2, 3>>, <<3, 1>>, <<3, 4>>, <<4, 1>> >>],
   [name |-> "mercedes",    edges |-> << <<1, 2>>, <<2, 3>>, <<3, 1>>, <<1, 4>>, <<2, 4>>, <<3, 4>> >>],
   [name |-> "ladder2",     edges |-> << <<1, 2>>, <<2, 3>>, <<3, 4>>, <<4, 5>>, <<5, 6>>, <<6, 1>>, <<2, 5>> >>],
   \* many loops that share edges only with their neighbours: L matrices with structural zeros (in the cycle basis of a
   \* spanning tree and after the chain change of basis), fill-in in the Cholesky factor
   [name |-> "bubblechain3", edges |-> << <<1, 2>>, <<1, 2>>, <<2, 3>>, <<2, 3>>, <<3, 4>>, <<3, 4>> >>],
   [name |-> "bubblechain4", edges |-> << <<1, 2>>, <<1, 2>>, <<2, 3>>, <<2, 3>>, <<3, 4>>, <<3, 4>>, <<4, 5>>, <<4, 5>> >>],
   [name |-> "ladder3",     edges |-> << <<1, 2>>, <<2, 3>>, <<3, 4>>, <<4, 5>>, <<5, 6>>, <<6, 1>>, <<2, 6>>, <<3, 5>> >>],
   [name |-> "tristrip3",   edges |-> << <<1, 2>>, <<2, 3>>, <<3, 1>>, <<2, 4>>, <<4, 3>>, <<4, 5>>, <<5, 3>> >>]
>>
=============================================================================
