------------------------------- MODULE Sample -------------------------------
(***************************************************************************)
(* Algorithmic layer for one call of                                       *)
(*   SampleGenerator::generate_sample_from_x_space_point                   *)
(* (src/sampling.rs `sample`, `permatuhedral_sampling`, `sample_q_vectors`,*)
(*  src/preprocessing.rs `sample_edge`, src/mimic_rng.rs).                 *)
(*                                                                         *)
(* One action per critical step of the code.  The state keeps              *)
(*   - the read-once cursor over the x-space point and the role of every   *)
(*     coordinate read so far,                                             *)
(*   - the sector bookkeeping (current subgraph, removal order, the        *)
(*     exponents of the xi factors of every Feynman parameter, the edges   *)
(*     forming the tropical monomials),                                    *)
(*   - an information-flow abstraction: for each intermediate and output   *)
(*     the set of coordinates it depends on by data flow, the set of       *)
(*     coordinates that decided a branch, the set of coordinates narrowed  *)
(*     to f64,                                                             *)
(*   - the log-event stream the code emits when print_debug_info is on,    *)
(*   - the outcome (Ok / Err(Matrix ZeroDet|Unstable) / Err(Gamma)).       *)
(* There is no Panic state: no property allows one.                        *)
(*                                                                         *)
(* Coordinates are 0-based as in the code.  The table `tab` is the         *)
(* declarative table of TropGraph (sequences indexed by id+1).             *)
(***************************************************************************)
EXTENDS TropGraph, TLC

VARIABLES
   g,        \* graph record (TropGraph), constant during a call
   tab,      \* [l, s, w, j] of g
   cfg,      \* [stab : BOOLEAN, debug : BOOLEAN, meta : BOOLEAN]   (settings)
   pc,       \* control state
   cur,      \* id of the current subgraph in the sector loop
   order,    \* sequence of removed edges s_1, s_2, ...
   ctr,      \* cursor = number of coordinates read so far
   roles,    \* roles[k+1] = role in which coordinate k was read
   pend,     \* edge picked and not yet assigned (0 = none)
   nxi,      \* nxi[e] = number of xi factors in x_e before rescaling (k-1 for e = s_k)
   om,       \* om[j] = omega (units 1/wd) of the graph left after j removals, exponent of xi_j is 1/om[j]
   utrE,     \* edges whose parameters multiply into u_trop
   vtrE,     \* the edge whose parameter is v_trop (0 = none)
   kdeps,    \* coordinates kappa depends on (data)
   xdeps,    \* xdeps[e] : coordinates x_e depends on (data)
   ctl,      \* coordinates that decided a branch (edge choices)
   narrowed, \* coordinates whose value was narrowed to f64
   lamdeps,  \* coordinates lambda depends on
   qsrc,     \* qsrc[n+1] = <<trig, a, b>> for Gaussian number n (flat index l*D+i)
   scale,    \* log-linear form of the rescaling factor in (log Utr, log Vtr): [a |-> r, b |-> r]
   logs,     \* keys written to the logger so far
   outdeps,  \* dependency sets of the quantities computed after the draws: [uvec, v, mom, jac, meta]
   out       \* "none" | "Ok" | "ErrZeroDet" | "ErrUnstable" | "ErrGamma"

vars == <<g, tab, cfg, pc, cur, order, ctr, roles, pend, nxi, om, utrE, vtrE, kdeps, xdeps, ctl,
          narrowed, lamdeps, qsrc, scale, logs, outdeps, out>>

E   == NE(g)
L   == tab.l[MaxId(g) + 1]
NG  == g.D * L                       \* number of Gaussian components
NU  == NG + (NG % 2)                 \* uniforms consumed by Box-Muller
DimX == 2 * E - 1 + NU               \* = get_dimension()
CurSet == SetOf(cur, E)

ExpectedRole(k) ==
   IF k < 2 * E - 2 THEN (IF k % 2 = 0 THEN "edge" ELSE "xi")
   ELSE IF k = 2 * E - 2 THEN "lambda"
   ELSE IF (k - (2 * E - 1)) % 2 = 0 THEN "bm_a" ELSE "bm_b"

\* log-linear forms over the symbols a = log Utr, b = log Vtr with rational coefficients
LF(x, y)     == [a |-> x, b |-> y]
LFAdd(p, q)  == LF(RAdd(p.a, q.a), RAdd(p.b, q.b))
LFSub(p, q)  == LF(RSub(p.a, q.a), RSub(p.b, q.b))
LFScale(p, r) == LF(RMul(p.a, r), RMul(p.b, r))
LFZero       == LF(Zero, Zero)

NoOutDeps == [uvec |-> {}, v |-> {}, mom |-> <<>>, jac |-> {}, meta |-> FALSE]
HalfDR == <<g.D, 2>>                                  \* D/2
DodR   == Norm(Dod(g), g.wd)                          \* omega_G as a rational

(***************************************************************************)
(* Initial condition: a call on graph gr with settings c.                  *)
(***************************************************************************)
InitCall(gr, tb, c) ==
   /\ g = gr /\ tab = tb /\ cfg = c
   /\ pc = "sector" /\ cur = MaxId(gr) /\ order = <<>> /\ ctr = 0 /\ roles = <<>> /\ pend = 0
   /\ nxi = [e \in 1..NE(gr) |-> -1] /\ om = <<>> /\ utrE = {} /\ vtrE = 0
   /\ kdeps = {} /\ xdeps = [e \in 1..NE(gr) |-> {}] /\ ctl = {} /\ narrowed = {} /\ lamdeps = {}
   /\ qsrc = <<>> /\ scale = LFZero /\ logs = <<>> /\ outdeps = NoOutDeps /\ out = "none"

\* the same as an action (used by drivers that start several calls in one behaviour)
StartCall(gr, tb, c) ==
   /\ g' = gr /\ tab' = tb /\ cfg' = c
   /\ pc' = "sector" /\ cur' = MaxId(gr) /\ order' = <<>> /\ ctr' = 0 /\ roles' = <<>> /\ pend' = 0
   /\ nxi' = [e \in 1..NE(gr) |-> -1] /\ om' = <<>> /\ utrE' = {} /\ vtrE' = 0
   /\ kdeps' = {} /\ xdeps' = [e \in 1..NE(gr) |-> {}] /\ ctl' = {} /\ narrowed' = {} /\ lamdeps' = {}
   /\ qsrc' = <<>> /\ scale' = LFZero /\ logs' = <<>> /\ outdeps' = NoOutDeps /\ out' = "none"

(***************************************************************************)
(* Sector loop (permatuhedral_sampling)                                    *)
(***************************************************************************)
\* sample_edge: one coordinate is read and decides which edge of the current subgraph is removed.
\* Every edge has positive probability, so each is a possible outcome of this step; the trace
\* specification additionally binds the choice to the value of the coordinate (inverse CDF).
PickEdge(e) ==
   /\ pc = "sector" /\ Cardinality(CurSet) >= 2 /\ e \in CurSet
   /\ roles' = Append(roles, "edge") /\ ctl' = ctl \cup {ctr} /\ ctr' = ctr + 1
   /\ pend' = e /\ pc' = "assign"
   /\ UNCHANGED <<g, tab, cfg, cur, order, nxi, om, utrE, vtrE, kdeps, xdeps, narrowed, lamdeps, qsrc, scale, logs, outdeps, out>>

\* a single remaining edge is removed without consuming a coordinate
LastEdge ==
   /\ pc = "sector" /\ Cardinality(CurSet) = 1
   /\ pend' = (CHOOSE e \in CurSet : TRUE) /\ pc' = "assign"
   /\ UNCHANGED <<g, tab, cfg, cur, order, ctr, roles, nxi, om, utrE, vtrE, kdeps, xdeps, ctl, narrowed, lamdeps, qsrc, scale, logs, outdeps, out>>

\* x_vec[edge] = kappa; tropical flags from the table; graph = graph_without_edge
Assign ==
   /\ pc = "assign" /\ pend # 0
   /\ LET sub == cur - Pow2(pend - 1) IN
      /\ nxi' = [nxi EXCEPT ![pend] = Len(om)]
      /\ xdeps' = [xdeps EXCEPT ![pend] = kdeps]
      /\ vtrE' = IF tab.s[cur + 1] /\ ~tab.s[sub + 1] THEN pend ELSE vtrE
      /\ utrE' = IF tab.l[sub + 1] < tab.l[cur + 1] THEN utrE \cup {pend} ELSE utrE
      /\ cur' = sub /\ order' = Append(order, pend) /\ pend' = 0
      /\ pc' = IF sub = 0 THEN "rescale" ELSE "xi"
   /\ UNCHANGED <<g, tab, cfg, ctr, roles, om, kdeps, ctl, narrowed, lamdeps, qsrc, scale, logs, outdeps, out>>

\* kappa *= xi^(1/omega(graph left))
DrawXi ==
   /\ pc = "xi" /\ cur # 0
   /\ roles' = Append(roles, "xi") /\ kdeps' = kdeps \cup {ctr} /\ ctr' = ctr + 1
   /\ om' = Append(om, tab.w[cur + 1])
   /\ pc' = "sector"
   /\ UNCHANGED <<g, tab, cfg, cur, order, pend, nxi, utrE, vtrE, xdeps, ctl, narrowed, lamdeps, qsrc, scale, logs, outdeps, out>>

\* common rescaling:  target  = u^(-D/2) * (u / (u*v))^dod ;  scaling = target^(1/(D/2*L + dod))
\* every parameter is multiplied by it, so it inherits the dependencies of the tropical monomials
Rescale ==
   /\ pc = "rescale"
   /\ LET u      == LF(One, Zero)
          v      == LF(Zero, One)
          xitr   == LFAdd(u, v)
          target == LFAdd(LFScale(u, RNeg(HalfDR)), LFScale(LFSub(u, xitr), DodR))
          expo   == RInv(RAdd(RMul(HalfDR, I2R(L)), DodR))
          tdeps  == UNION {xdeps[e] : e \in utrE \cup (IF vtrE = 0 THEN {} ELSE {vtrE})}
      IN /\ scale' = LFScale(target, expo)
         /\ xdeps' = [e \in 1..E |-> xdeps[e] \cup tdeps]
   /\ logs' = IF cfg.debug
              THEN logs \o <<"momtrop_feynman_parameter_no_rescaling", "momtrop_feynman_parameter",
                             "momtrop_u_trop_no_rescaling", "momtrop_v_trop_no_rescaling">>
              ELSE logs
   /\ pc' = "decomp"
   /\ UNCHANGED <<g, tab, cfg, cur, order, ctr, roles, pend, nxi, om, utrE, vtrE, kdeps, ctl, narrowed, lamdeps, qsrc, outdeps, out>>

(***************************************************************************)
(* L matrix and its decomposition: may fail                                *)
(***************************************************************************)
Decompose(r) ==
   /\ pc = "decomp" /\ r \in {"Ok", "ErrZeroDet", "ErrUnstable"}
   /\ (r = "ErrUnstable") => cfg.stab
   /\ IF r = "Ok" THEN pc' = "lambda" /\ out' = out
      ELSE pc' = "done" /\ out' = r
   /\ UNCHANGED <<g, tab, cfg, cur, order, ctr, roles, pend, nxi, om, utrE, vtrE, kdeps, xdeps, ctl, narrowed, lamdeps, qsrc, scale, logs, outdeps>>

\* the only narrowing of a user value: the Gamma quantile works in f64 on coordinate 2E-2
DrawLambda(r) ==
   /\ pc = "lambda" /\ r \in {"Ok", "ErrGamma"}
   /\ roles' = Append(roles, "lambda") /\ narrowed' = narrowed \cup {ctr}
   /\ lamdeps' = {ctr} /\ ctr' = ctr + 1
   /\ IF r = "Ok"
      THEN /\ pc' = IF NU = 0 THEN "finish" ELSE "bm"
           /\ out' = out
           /\ logs' = IF cfg.debug THEN Append(logs, "momtrop_lambda") ELSE logs
      ELSE pc' = "done" /\ out' = r /\ logs' = logs
   /\ UNCHANGED <<g, tab, cfg, cur, order, pend, nxi, om, utrE, vtrE, kdeps, xdeps, ctl, qsrc, scale, outdeps>>

\* Box-Muller: a pair of coordinates (a, b) gives sqrt(-2 ln a) cos(2 pi b) and sqrt(-2 ln a) sin(2 pi b).
\* One action per get_random_number call.
BoxMullerA ==
   /\ pc = "bm" /\ Len(qsrc) < NU
   /\ roles' = Append(roles, "bm_a") /\ ctr' = ctr + 1 /\ pc' = "bm_b"
   /\ UNCHANGED <<g, tab, cfg, cur, order, pend, nxi, om, utrE, vtrE, kdeps, xdeps, ctl, narrowed, lamdeps, qsrc, scale, logs, outdeps, out>>
BoxMullerB ==
   /\ pc = "bm_b"
   /\ roles' = Append(roles, "bm_b")
   /\ qsrc' = qsrc \o << <<"cos", ctr - 1, ctr>>, <<"sin", ctr - 1, ctr>> >>
   /\ ctr' = ctr + 1
   /\ pc' = IF Len(qsrc) + 2 >= NU THEN "finish" ELSE "bm"
   /\ UNCHANGED <<g, tab, cfg, cur, order, pend, nxi, om, utrE, vtrE, kdeps, xdeps, ctl, narrowed, lamdeps, scale, logs, outdeps, out>>

(***************************************************************************)
(* After the draws: no further reads, no narrowing.  One action per        *)
(* function of src/sampling.rs; each records what its result depends on.   *)
(***************************************************************************)
XAllNow == UNION {xdeps[e] : e \in 1..E}
QPairNow(n) == {qsrc[n + 1][2], qsrc[n + 1][3]}
\* compute_u_vectors: u_l = sum_e s_el x_e p_e
UVectors ==
   /\ pc = "finish"
   /\ outdeps' = [outdeps EXCEPT !.uvec = XAllNow]
   /\ pc' = "vpoly"
   /\ UNCHANGED <<g, tab, cfg, cur, order, ctr, roles, pend, nxi, om, utrE, vtrE, kdeps, xdeps, ctl, narrowed, lamdeps, qsrc, scale, logs, out>>
\* compute_v_polynomial: sum_e x_e (m_e^2 + p_e^2) - u^T L^-1 u
VPoly ==
   /\ pc = "vpoly"
   /\ outdeps' = [outdeps EXCEPT !.v = XAllNow \cup outdeps.uvec]
   /\ pc' = "momenta"
   /\ UNCHANGED <<g, tab, cfg, cur, order, ctr, roles, pend, nxi, om, utrE, vtrE, kdeps, xdeps, ctl, narrowed, lamdeps, qsrc, scale, logs, out>>
\* compute_loop_momenta: k_l = sqrt(v / 2 lambda) sum_l' (Q^-T)_ll' q_l' - (L^-1 u)_l ; then the debug log of v and u
Momenta ==
   /\ pc = "momenta"
   /\ outdeps' = [outdeps EXCEPT !.mom = [i \in 1..g.D |->
                     outdeps.v \cup lamdeps \cup XAllNow \cup UNION {QPairNow(lp * g.D + (i - 1)) : lp \in 0..(L - 1)}]]
   /\ logs' = IF cfg.debug THEN logs \o <<"momtrop_v", "momtrop_u">> ELSE logs
   /\ pc' = "jac"
   /\ UNCHANGED <<g, tab, cfg, cur, order, ctr, roles, pend, nxi, om, utrE, vtrE, kdeps, xdeps, ctl, narrowed, lamdeps, qsrc, scale, out>>
\* jacobian = (u_trop / u)^(D/2) (v_trop / v)^dod * cached factor : no lambda, no Gaussian
Jacobian ==
   /\ pc = "jac"
   /\ outdeps' = [outdeps EXCEPT !.jac = XAllNow \cup outdeps.v]
   /\ pc' = "meta"
   /\ UNCHANGED <<g, tab, cfg, cur, order, ctr, roles, pend, nxi, om, utrE, vtrE, kdeps, xdeps, ctl, narrowed, lamdeps, qsrc, scale, logs, out>>
\* metadata (only when asked for) and return
Return ==
   /\ pc = "meta"
   /\ outdeps' = [outdeps EXCEPT !.meta = cfg.meta]
   /\ pc' = "done" /\ out' = "Ok"
   /\ UNCHANGED <<g, tab, cfg, cur, order, ctr, roles, pend, nxi, om, utrE, vtrE, kdeps, xdeps, ctl, narrowed, lamdeps, qsrc, scale, logs>>

Terminated == pc = "done" /\ UNCHANGED vars

StepNext == \/ \E e \in 1..E : PickEdge(e)
            \/ LastEdge \/ Assign \/ DrawXi \/ Rescale
            \/ \E r \in {"Ok", "ErrZeroDet", "ErrUnstable"} : Decompose(r)
            \/ \E r \in {"Ok", "ErrGamma"} : DrawLambda(r)
            \/ BoxMullerA \/ BoxMullerB \/ UVectors \/ VPoly \/ Momenta \/ Jacobian \/ Return

(***************************************************************************)
(* Derived output dependencies (what each returned quantity may depend on) *)
(***************************************************************************)
XAll      == UNION {xdeps[e] : e \in 1..E}
QPair(n)  == {qsrc[n + 1][2], qsrc[n + 1][3]}            \* coordinates of Gaussian n
QAll      == UNION {QPair(n) : n \in 0..(NG - 1)}
\* loop momentum component (l, i): sqrt(v/2lambda) * sum_l' Qinv[l][l'] q[l'][i] - (L^-1 u)[l][i]
MomDeps(i) == XAll \cup lamdeps \cup UNION {QPair(lp * g.D + i) : lp \in 0..(L - 1)}

(***************************************************************************)
(* Kinematic arguments.  cfg.massargs is the set of edges whose mass was   *)
(* passed as Some(m) with the call (None = absent), cfg.loopedges the edges*)
(* whose row of the loop signature is not zero.  The `is_massive` flag of  *)
(* the graph shapes the tropical approximation only: V is made of the      *)
(* masses GIVEN WITH THE CALL,  V = sum_e x_e (m_e^2 + p_e^2) - u^T L^-1 u *)
(* with u_l = sum_e s_el x_e p_e.  Hence, exactly:                         *)
(***************************************************************************)
KinMasses(name) ==
   CASE name \in {"v", "jac", "mom"} -> cfg.massargs          \* through V
     [] OTHER -> {}                                           \* u, L, L^-1 u, lambda, the tropical values: none
\* (data dependence as the tracking scalar sees it is value-blind: s_el x_e p_e depends on p_e also where s_el = 0, so for
\*  L^-1 u the edges that carry loop momentum are required and any further edge is tolerated)
KinShiftsMin(name) ==
   CASE name \in {"v", "jac", "mom"} -> 1..E                  \* p_e^2 of every edge enters V
     [] name = "shift" -> cfg.loopedges                       \* L^-1 u: edges that carry loop momentum
     [] OTHER -> {}
KinShiftsMax(name) == IF name = "shift" THEN 1..E ELSE KinShiftsMin(name)
KinTypeOK == cfg.massargs \subseteq 1..E /\ cfg.loopedges \subseteq 1..E

(***************************************************************************)
(* Properties                                                              *)
(***************************************************************************)
TypeOK ==
   /\ pc \in {"sector", "assign", "xi", "rescale", "decomp", "lambda", "bm", "bm_b", "finish", "vpoly", "momenta", "jac", "meta", "done"}
   /\ out \in {"none", "Ok", "ErrZeroDet", "ErrUnstable", "ErrGamma"}
   /\ ctr = Len(roles)

\* C14: coordinates are read in order, each exactly once, each in the role fixed by its index
RolesOK == \A k \in 1..Len(roles) : roles[k] = ExpectedRole(k - 1)
ReadsAtExit ==
   pc = "done" =>
      /\ out = "Ok" => ctr = DimX
      /\ out \in {"ErrZeroDet", "ErrUnstable"} => ctr = 2 * E - 2
      /\ out = "ErrGamma" => ctr = 2 * E - 1
\* C14: the three groups of outputs depend on disjoint groups of coordinates; all are used
Independent ==
   (pc = "done" /\ out = "Ok") =>
      /\ XAll \cup ctl = 0..(2 * E - 3)
      /\ lamdeps = {2 * E - 2}
      /\ \A n \in 0..(NG - 1) : QPair(n) = {2 * E - 1 + 2 * (n \div 2), 2 * E + 2 * (n \div 2)}
      /\ (XAll \cup ctl) \cap lamdeps = {} /\ (XAll \cup ctl) \cap QAll = {} /\ lamdeps \cap QAll = {}
      /\ \A n, m \in 0..(NG - 1) : (n \div 2 # m \div 2) => QPair(n) \cap QPair(m) = {}
      /\ XAll \cup ctl \cup lamdeps \cup UNION {{qsrc[n][2], qsrc[n][3]} : n \in 1..Len(qsrc)} = 0..(DimX - 1)
\* C13: Gaussian n is cos for even n, sin for odd n, of the pair starting at 2E-1 + 2*(n div 2)
BoxMullerMap ==
   \A n \in 0..(Len(qsrc) - 1) :
      /\ qsrc[n + 1][1] = (IF n % 2 = 0 THEN "cos" ELSE "sin")
      /\ qsrc[n + 1][2] = 2 * E - 1 + 2 * (n \div 2)
      /\ qsrc[n + 1][3] = 2 * E + 2 * (n \div 2)
\* C19: only the Gamma draw narrows, and only its own coordinate
NarrowOnlyLambda == narrowed \subseteq {2 * E - 2}
\* C06: in the sector loop an edge is always selectable: the subgraph is non-empty, every edge has a
\* positive probability and the cumulative sums end at exactly 1, so min{k : Cum_k >= u} exists for
\* every u in [0,1)  (no Panic state exists in this model)
SectorTotal ==
   (pc = "sector") =>
      /\ cur # 0
      /\ Cardinality(CurSet) >= 2 =>
            LET c == Cum(g, tab.w, tab.j, cur)
            IN AnyOvf(c) \/ (/\ c[Len(c)] = One
                             /\ \A k \in 1..Len(c) : RPos(c[k])
                             /\ \A k \in 1..(Len(c) - 1) : RLt(c[k], c[k + 1]))
\* C07: sector formula - the k-th removed edge carries k-1 xi factors with exponents 1/omega(g_j)
SectorFormula ==
   /\ \A k \in 1..Len(order) : nxi[order[k]] = k - 1
   /\ \A j \in 1..Len(om) : j <= Len(order) =>
         om[j] = tab.w[IdOf(Full(g) \ {order[i] : i \in 1..j}) + 1]
   /\ \A j \in 1..Len(om) : om[j] > 0
\* C07: flags = declarative characterisation along the removal order
GraphAfter(k) == Full(g) \ {order[i] : i \in 1..k}
FlagsOK ==
   /\ utrE = {order[k] : k \in {k \in 1..Len(order) :
                                  tab.l[IdOf(GraphAfter(k)) + 1] < tab.l[IdOf(GraphAfter(k - 1)) + 1]}}
   /\ LET ks == {k \in 1..Len(order) : tab.s[IdOf(GraphAfter(k - 1)) + 1] /\ ~tab.s[IdOf(GraphAfter(k)) + 1]}
      IN IF ks = {} THEN vtrE = 0 ELSE vtrE = order[Max(ks)]
\* C07/C11: after rescaling by s, (s^L Utr)^(D/2) (s Vtr)^dod = 1, identically in Utr, Vtr
RescaleNormalises ==
   (pc \in {"decomp", "lambda", "bm", "bm_b", "finish", "vpoly", "momenta", "jac", "meta", "done"} /\ ~IsOvf(scale.a) /\ ~IsOvf(scale.b)) =>
      LET su == LFAdd(LFScale(scale, I2R(L)), LF(One, Zero))      \* log of rescaled Utr
          sv == LFAdd(scale, LF(Zero, One))                       \* log of rescaled Vtr
          tot == LFAdd(LFScale(su, HalfDR), LFScale(sv, DodR))
      IN IsOvf(tot.a) \/ IsOvf(tot.b) \/ tot = LFZero
\* when complete, |utrE| = L and a spanning graph loses its flag exactly once
FlagsComplete ==
   pc \in {"rescale", "decomp", "lambda", "bm", "bm_b", "finish", "vpoly", "momenta", "jac", "meta", "done"} =>
      /\ Cardinality(utrE) = L
      /\ tab.s[MaxId(g) + 1] => vtrE # 0
\* C11 / C14: the weight depends on the Feynman parameters (and the edge data) only - not on the Gamma variate,
\* not on the Gaussians; each momentum component depends on the parameters, lambda and the Gaussians of its own
\* vector index
OutDepsOK ==
   (pc = "done" /\ out = "Ok") =>
      /\ outdeps.jac \subseteq XAll /\ outdeps.v \subseteq XAll /\ outdeps.uvec \subseteq XAll
      /\ outdeps.jac \cap lamdeps = {} /\ outdeps.jac \cap QAll = {}
      /\ \A i \in 1..g.D : outdeps.mom[i] = MomDeps(i - 1)
      /\ outdeps.meta = cfg.meta
\* C17: the sampler is never written
Pure == [][g' = g /\ tab' = tab /\ cfg' = cfg]_vars
\* log stream (print_debug_info): nothing when off; fixed key order when on
LogsOK ==
   /\ ~cfg.debug => logs = <<>>
   /\ (cfg.debug /\ pc = "done" /\ out = "Ok") =>
         logs = <<"momtrop_feynman_parameter_no_rescaling", "momtrop_feynman_parameter",
                  "momtrop_u_trop_no_rescaling", "momtrop_v_trop_no_rescaling", "momtrop_lambda",
                  "momtrop_v", "momtrop_u">>
Termination == <>(pc = "done")
=============================================================================
