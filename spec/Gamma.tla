------------------------------- MODULE Gamma -------------------------------
(***************************************************************************)
(* Control skeleton of gamma::inverse_gamma_lr / inverse_gamma_lr_impl     *)
(* (src/gamma.rs): the near-one shortcut, the starting-value branches of   *)
(* DiDonato-Morris, the two early returns, at most MaxIter Schroeder       *)
(* steps, and the wrapper that turns the f64 result into Ok / Err.         *)
(* Numbers are abstracted to classes; arithmetic is nondeterministic on    *)
(* classes (a step may produce any class), which is what makes the         *)
(* wrapper's case analysis the only thing that guarantees the outcome.     *)
(***************************************************************************)
EXTENDS Integers, TLC
CONSTANT MaxIter

Cls == {"pos", "zero", "neg", "nan", "inf"}
Branches == {"near_one", "lt1_b_large_pow", "lt1_b_large_exp", "lt1_small_a_mid_b", "lt1_mid_b", "lt1_small_b",
             "lt1_tiny_b", "lt1_tiny_b_early", "ge1_early_w", "ge1_upper_w", "ge1_upper_tail_mid", "ge1_upper_tail_far",
             "ge1_lower"}
EarlyReturn == {"near_one", "lt1_tiny_b_early", "ge1_early_w"}

VARIABLES pc,      \* "start" | "iterate" | "wrap" | "done"
          branch,  \* starting-value branch taken
          iter,    \* Schroeder steps made
          x,       \* class of the current iterate / of the raw f64 result
          out      \* "none" | "Err" | "OkPos"
gvars == <<pc, branch, iter, x, out>>

GInit == pc = "start" /\ branch = "none" /\ iter = 0 /\ x = "pos" /\ out = "none"

\* choose the starting value; three branches return at once
Guess(b) ==
   /\ pc = "start" /\ b \in Branches
   /\ branch' = b
   /\ \E c \in Cls : x' = c                       \* x0 (or the early result) of any class
   /\ pc' = IF b \in EarlyReturn THEN "wrap" ELSE "iterate"
   /\ UNCHANGED <<iter, out>>

\* one pass of the for-loop: non-positive iterates are replaced by 1e-16 before the residual is taken
Iterate ==
   /\ pc = "iterate" /\ iter < MaxIter
   /\ \/ /\ pc' = "wrap"                           \* |err| < tol * eps : return x_n (guarded: pos or nan)
         /\ x' = IF x \in {"zero", "neg"} THEN "pos" ELSE x
         /\ iter' = iter
      \/ /\ pc' = "iterate" /\ iter' = iter + 1    \* x_n -= h_n : any class
         /\ \E c \in Cls : x' = c
   /\ UNCHANGED <<branch, out>>

\* iterations exhausted: the last iterate is returned as it is
Exhausted ==
   /\ pc = "iterate" /\ iter = MaxIter
   /\ pc' = "wrap" /\ UNCHANGED <<branch, iter, x, out>>

\* wrapper: only a finite positive value is a value; everything else is an error
Wrap ==
   /\ pc = "wrap"
   /\ out' = IF x = "pos" THEN "OkPos" ELSE "Err"
   /\ pc' = "done" /\ UNCHANGED <<branch, iter, x>>

GDone == pc = "done" /\ UNCHANGED gvars
GNext == (\E b \in Branches : Guess(b)) \/ Iterate \/ Exhausted \/ Wrap \/ GDone
GSpec == GInit /\ [][GNext]_gvars /\ WF_gvars(GNext)

GTypeOK == pc \in {"start", "iterate", "wrap", "done"} /\ x \in Cls /\ iter \in 0..MaxIter
\* C12: the outcome is an error or a finite positive value, never anything else
OutcomeOK == pc = "done" => (out \in {"Err", "OkPos"} /\ (out = "OkPos" => x = "pos"))
IterBound == iter <= MaxIter
GTermination == <>(pc = "done")
\* the wrapper as coded before the fix commit accepted every non-NaN class (documentation of D4)
WrapAsCodedBefore(c) == IF c = "nan" THEN "Err" ELSE "Ok"
ASSUME \E c \in Cls : WrapAsCodedBefore(c) = "Ok" /\ c # "pos"
=============================================================================
