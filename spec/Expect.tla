------------------------------- MODULE Expect -------------------------------
(* What the behaviour generators print about a graph: the input and the specification's exact
   expectation for the table (shared by Gen_Table and Gen_Routing). *)
EXTENDS TropGraph, SequencesExt

P == 32749
RECURSIVE HSeq(_, _, _)
HSeq(s, i, h) == IF i > Len(s) THEN h ELSE HSeq(s, i + 1, (h * 31 + s[i]) % P)
Hash(g) == LET h1 == HSeq([i \in 1..NE(g) |-> g.edges[i][1] * 5 + g.edges[i][2]], 1, 7)
               h2 == HSeq([i \in 1..NE(g) |-> IF g.mass[i] THEN 2 ELSE 1], 1, h1)
               h3 == HSeq(g.w, 1, h2)
               h4 == (h3 * 31 + IdOf(g.ext)) % P
           IN (h4 * 31 + g.D) % P

TableExpect(g) ==
   LET gd  == GDodTab(g)
       div == \E id \in 1..(MaxId(g) - 1) : gd[id + 1] <= 0
       jt  == IF div THEN <<>> ELSE JTab(g, gd)
       cum == IF div THEN <<>>
              ELSE SeqTab(LAMBDA id : IF Cardinality(SetOf(id, NE(g))) >= 2
                                      THEN Cum(g, gd, jt, id) ELSE <<>>, MaxId(g))
   IN [g |-> [edges |-> g.edges, mass |-> g.mass, w |-> g.w, wd |-> g.wd,
              ext |-> SetToSortSeq(g.ext, <), D |-> g.D],
       div |-> div, near |-> (\E id \in 1..(MaxId(g) - 1) : gd[id + 1] = 0) /\ g.wd \notin {1, 2, 4, 8, 16},
       l |-> LoopTab(g), s |-> SpanTab(g), w |-> gd, j |-> jt, cum |-> cum,
       dod |-> Dod(g), L |-> Loops(g, Full(g)), dim |-> Dim(g), E |-> NE(g)]
=============================================================================
