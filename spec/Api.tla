-------------------------------- MODULE Api --------------------------------
(***************************************************************************)
(* API-level histories of momtrop (C17, C18): building samplers, sampling  *)
(* from several threads concurrently, serialising / deserialising,         *)
(* cloning, querying.                                                      *)
(*                                                                         *)
(* A sampler has an ORIGIN (the graph, dimension and signature it was      *)
(* built from).  The specification says: a sampler object is never         *)
(* modified after it exists, and the result of a sample is a function      *)
(* `truth` of (origin, argument) only - not of the object used (original,  *)
(* clone, deserialised copy), the thread, what ran before or concurrently, *)
(* the process, or the flags return_metadata / print_debug_info.           *)
(* Results and arguments are abstract tokens; `memo` is what an observer   *)
(* has learnt of `truth` so far.                                           *)
(***************************************************************************)
EXTENDS Integers, FiniteSets, TLC
CONSTANTS Sids, Origins, Args, Threads, Blobs, Digests

VARIABLES samplers,   \* [Sids -> Origins \cup {0}]   0 = no such object yet
          blobs,      \* [Blobs -> Origins \cup {0}]  serialised forms
          thr,        \* [Threads -> <<sid, arg>> or <<>>]  calls in flight
          memo,       \* partial knowledge of truth: [Origins \X Args -> Digests \cup {0}]
          truth       \* the function the implementation computes (unknown to the observer)
avars == <<samplers, blobs, thr, memo, truth>>

AInit == /\ samplers = [s \in Sids |-> 0] /\ blobs = [b \in Blobs |-> 0]
         /\ thr = [t \in Threads |-> <<>>]
         /\ memo = [k \in Origins \X Args |-> 0]
         /\ truth \in [Origins \X Args -> Digests]

Build(s, o) == /\ samplers[s] = 0 /\ samplers' = [samplers EXCEPT ![s] = o]
               /\ UNCHANGED <<blobs, thr, memo, truth>>
Clone(s, s2) == /\ samplers[s] # 0 /\ samplers[s2] = 0 /\ samplers' = [samplers EXCEPT ![s2] = samplers[s]]
                /\ UNCHANGED <<blobs, thr, memo, truth>>
Serialize(s, b) == /\ samplers[s] # 0 /\ blobs[b] = 0 /\ blobs' = [blobs EXCEPT ![b] = samplers[s]]
                   /\ UNCHANGED <<samplers, thr, memo, truth>>
Deserialize(b, s) == /\ blobs[b] # 0 /\ samplers[s] = 0 /\ samplers' = [samplers EXCEPT ![s] = blobs[b]]
                     /\ UNCHANGED <<blobs, thr, memo, truth>>
\* a sample call starts on thread t (any number of calls may be in flight on the same object)
Begin(t, s, a) == /\ thr[t] = <<>> /\ samplers[s] # 0 /\ thr' = [thr EXCEPT ![t] = <<s, a>>]
                  /\ UNCHANGED <<samplers, blobs, memo, truth>>
\* ... and returns: the result is truth(origin, arg); the observer learns it
End(t, r) == /\ thr[t] # <<>>
             /\ LET k == <<samplers[thr[t][1]], thr[t][2]>>
                IN /\ r = truth[k]
                   /\ memo' = [memo EXCEPT ![k] = r]
             /\ thr' = [thr EXCEPT ![t] = <<>>]
             /\ UNCHANGED <<samplers, blobs, truth>>

ANext == \/ \E s \in Sids, o \in Origins : Build(s, o)
         \/ \E s, s2 \in Sids : Clone(s, s2)
         \/ \E s \in Sids, b \in Blobs : Serialize(s, b)
         \/ \E b \in Blobs, s \in Sids : Deserialize(b, s)
         \/ \E t \in Threads, s \in Sids, a \in Args : Begin(t, s, a)
         \/ \E t \in Threads, r \in Digests : End(t, r)
ASpec == AInit /\ [][ANext]_avars

ATypeOK == /\ samplers \in [Sids -> Origins \cup {0}] /\ blobs \in [Blobs -> Origins \cup {0}]
\* C17: an existing sampler object is never modified - by sampling, serialising or anything else
Immutable == [][\A s \in Sids : samplers[s] # 0 => samplers'[s] = samplers[s]]_avars
\* C17: what has been observed never changes (results are a function of origin and argument)
MemoStable == [][\A k \in Origins \X Args : memo[k] # 0 => memo'[k] = memo[k]]_avars
MemoSound == \A k \in Origins \X Args : memo[k] # 0 => memo[k] = truth[k]
\* C18: a deserialised copy has the origin of the object that was serialised
RoundTrip == \A b \in Blobs : blobs[b] # 0 => \E s \in Sids : samplers[s] = blobs[b]
=============================================================================
