---------------------------- MODULE Trace_Sample ----------------------------
(***************************************************************************)
(* Trace validation (binding mode V) of recorded executions of             *)
(* generate_sample_from_x_space_point against the Sample machine.          *)
(*                                                                         *)
(* The harness runs the real, unmodified generic code with a tracking      *)
(* scalar and writes one ndjson event per observable step, in execution    *)
(* order (IOEnv.TRACE names the file):                                     *)
(*   Reset  g, stab, debug, meta, order   a new call on graph g starts;    *)
(*          order = the removal order the repository's own debug log shows *)
(*          for the same point (<<>> when it could not be observed)        *)
(*   Read   coord, narrow, unum, uden                                      *)
(*          x-space coordinate `coord` acquired a use (one event per       *)
(*          coordinate, sorted by index: the order in which the code       *)
(*          happens to touch coordinates is not part of any property);     *)
(*          narrow: it was converted to f64 as a bare coordinate;          *)
(*          unum/uden: its value when it lies on the dyadic lattice        *)
(*          (uden = 0: not given).  The ROLE of the coordinate is decided  *)
(*          by the state of the machine, not by the recorder.              *)
(*   Narrow coord, nleaves   any other to_f64 (coord = -1: not a bare      *)
(*          coordinate; nleaves = number of coordinates it depends on)     *)
(*   Widen  value            an f64 constant that flows into a returned     *)
(*          quantity and is neither a number stored in the sampler, one of *)
(*          the documented exponent constants, the caller's tolerance nor  *)
(*          the Gamma variate: no action of the model matches it           *)
(*   Ret    out, used, logs  outcome, set of coordinates that acquired a   *)
(*          use, keys written to the logger                                *)
(*   Q      n, trig, a, b    Gaussian number n is trig of coordinates a, b *)
(*   Out    name, i, leaves  data dependencies of a returned quantity      *)
(*          masses, shifts   kinematic arguments (edges) that flow into it *)
(* Steps of the machine that leave no event (LastEdge, Assign, Rescale,    *)
(* Decompose, UVectors .. Return) are taken silently between events; they are          *)
(* deterministic, so the search stays linear in the length of the trace.   *)
(* The trace is accepted iff every line is consumed (register 1 holds the  *)
(* furthest line reached; POSTCONDITION TraceAccepted).                         *)
(***************************************************************************)
EXTENDS Sample, Json, IOUtils, SequencesExt

Rec == ndJsonDeserialize(IOEnv.TRACE)

VARIABLES l,        \* next line of the trace to be matched
          rl        \* line of the Reset event of the call in progress
tvars == <<vars, l, rl>>

NoGraph == [edges |-> <<>>, mass |-> <<>>, w |-> <<>>, wd |-> 2, ext |-> {}, D |-> 0]
NoTab   == [l |-> <<0>>, s |-> <<FALSE>>, w |-> <<2>>, j |-> <<One>>]

GraphOf(r) == [edges |-> r.edges, mass |-> r.mass, w |-> r.w, wd |-> r.wd,
               ext |-> {r.ext[i] : i \in 1..Len(r.ext)}, D |-> r.D]
SetOfSeq(s) == {s[i] : i \in 1..Len(s)}

TInit == /\ InitCall(NoGraph, NoTab, [stab |-> FALSE, debug |-> FALSE, meta |-> FALSE, massargs |-> {}, loopedges |-> {}])
         /\ l = 1 /\ rl = 0

IsEvent(e) == l <= Len(Rec) /\ Rec[l].ev = e /\ l' = l + 1
Same == rl' = rl
Idle == pc = "done" \/ NE(g) = 0       \* no call in progress

TReset ==
   /\ IsEvent("Reset") /\ Idle /\ rl' = l
   /\ LET gr == GraphOf(Rec[l].g)
      IN StartCall(gr, IF gr = g THEN tab ELSE FullTable(gr), [stab |-> Rec[l].stab, debug |-> Rec[l].debug, meta |-> Rec[l].meta,
                        massargs |-> SetOfSeq(Rec[l].margs), loopedges |-> SetOfSeq(Rec[l].loopedges)])

\* inverse-CDF rule on exact rationals: with cumulative sums c_1 < ... < c_n = 1 and u on a lattice,
\* taking edge k is legal iff  c_(k-1) <= u <= c_k   (equality = exact tie: the rounded sum may fall
\* either side, both neighbours are legal).  Rationals too large for TLC: no verdict (skipped).
LatticeOK(k) ==
   IF Rec[l].uden = 0 THEN TRUE
   ELSE LET c == Cum(g, tab.w, tab.j, cur)
            u == Norm(Rec[l].unum, Rec[l].uden)
        IN IF AnyOvf(c) \/ (\E i \in 1..Len(c) : ~RCmpOk(u, c[i])) THEN TRUE
           ELSE /\ RLe(u, c[k])
                /\ (IF k = 1 THEN TRUE ELSE RLe(c[k - 1], u))   \* (IF, not \/: TLC evaluates both disjuncts of an action)

\* An edge-choice read.  The edge removed at this step is the one the observed removal order names; when the
\* order was not observed, any edge of the current subgraph may have been taken.
Observed == IF rl = 0 THEN <<>> ELSE Rec[rl].order
PosOf(e) == Cardinality({f \in CurSet : f <= e})
TReadCtl ==
   /\ IsEvent("Read") /\ ~Rec[l].narrow /\ Rec[l].coord = ctr /\ Same
   /\ pc = "sector"
   /\ \E e \in CurSet :
        /\ (IF Len(Observed) > Len(order) THEN e = Observed[Len(order) + 1] ELSE TRUE)
        /\ LatticeOK(PosOf(e))
        /\ PickEdge(e)
\* a data read: which role the coordinate plays is fixed by where the call is
TReadXi     == IsEvent("Read") /\ ~Rec[l].narrow /\ Rec[l].coord = ctr /\ Same /\ DrawXi
TReadLambda == IsEvent("Read") /\ Rec[l].narrow /\ Rec[l].coord = ctr /\ Same
               /\ \E r \in {"Ok", "ErrGamma"} : DrawLambda(r)
TReadBmA    == IsEvent("Read") /\ ~Rec[l].narrow /\ Rec[l].coord = ctr /\ Same /\ BoxMullerA
TReadBmB    == IsEvent("Read") /\ ~Rec[l].narrow /\ Rec[l].coord = ctr /\ Same /\ BoxMullerB

\* further narrowings: a coordinate already narrowed may be narrowed again; with print_debug_info the
\* logger receives f64 copies of intermediate values (the property exempts debug output)
TNarrow ==
   /\ IsEvent("Narrow") /\ Same
   /\ \/ Rec[l].coord \in narrowed
      \/ cfg.debug
   /\ UNCHANGED vars

TRet ==
   /\ IsEvent("Ret") /\ Same /\ pc = "done" /\ NE(g) > 0
   /\ out = Rec[l].out
   /\ SetOfSeq(Rec[l].used) = 0..(ctr - 1)            \* exactly the coordinates read acquired a use
   /\ (~cfg.debug => Rec[l].logs = <<>>)   \* nothing is logged when print_debug_info is off; with it on, the key names are
                                           \* the repository's business (Sample!LogsOK documents the present ones)
   /\ UNCHANGED vars

TQ ==
   /\ IsEvent("Q") /\ Same /\ pc = "done" /\ out = "Ok"
   /\ Rec[l].n + 1 <= Len(qsrc)
   /\ qsrc[Rec[l].n + 1] = <<Rec[l].trig, Rec[l].a, Rec[l].b>>
   /\ UNCHANGED vars

\* data dependencies observed on returned values must be within what the model allows
Allowed(name, i) ==
   CASE name = "u"      -> XAll
     [] name = "v"      -> outdeps.v
     [] name = "jac"    -> outdeps.jac
     [] name = "utrop"  -> {}
     [] name = "vtrop"  -> {}
     [] name = "lambda" -> {}          \* provenance is cut by the f64 round trip
     [] name = "lmat"   -> XAll
     [] name = "mom"    -> outdeps.mom[i + 1]
     [] name = "shift"  -> XAll
     [] OTHER           -> {}
TOut ==
   /\ IsEvent("Out") /\ Same /\ pc = "done" /\ out = "Ok"
   /\ SetOfSeq(Rec[l].leaves) \subseteq Allowed(Rec[l].name, Rec[l].i)
   /\ (Rec[l].name \in {"u", "v", "jac"} /\ E >= 2) => SetOfSeq(Rec[l].leaves) # {}
   \* kinematic arguments that flow into the quantity: exactly those of the definition (Sample!KinMasses, KinShiftsMin / Max)
   /\ Rec[rl].kin => /\ SetOfSeq(Rec[l].masses) = KinMasses(Rec[l].name)
                     /\ KinShiftsMin(Rec[l].name) \subseteq SetOfSeq(Rec[l].shifts)
                     /\ SetOfSeq(Rec[l].shifts) \subseteq KinShiftsMax(Rec[l].name)
   /\ UNCHANGED vars

\* tolerated freedom of the implementation: the matrix decomposition may be done after the Gamma draw (the
\* properties do not fix the order of these two independent steps), so a matrix error may also surface later
LateMatrixError(r) ==
   /\ pc \in {"bm", "finish"} /\ Len(qsrc) = 0 /\ r \in {"ErrZeroDet", "ErrUnstable"} /\ (r = "ErrUnstable" => cfg.stab)
   /\ pc' = "done" /\ out' = r
   /\ UNCHANGED <<g, tab, cfg, cur, order, ctr, roles, pend, nxi, om, utrE, vtrE, kdeps, xdeps, ctl, narrowed, lamdeps, qsrc, scale, logs, outdeps>>
Silent == /\ l' = l /\ Same
          /\ \/ LastEdge \/ Assign \/ Rescale \/ UVectors \/ VPoly \/ Momenta \/ Jacobian \/ Return
             \/ \E r \in {"Ok", "ErrZeroDet", "ErrUnstable"} : Decompose(r)
             \/ \E r \in {"ErrZeroDet", "ErrUnstable"} : LateMatrixError(r)

TNext == TReset \/ TReadCtl \/ TReadXi \/ TReadLambda \/ TReadBmA \/ TReadBmB \/ TNarrow
         \/ TRet \/ TQ \/ TOut \/ Silent

TSpec == TInit /\ [][TNext]_tvars

\* the machine's invariants are evaluated at every state of the validated behaviour
InCall == NE(g) > 0
TI_Roles == InCall => RolesOK
TI_Reads == InCall => ((pc = "done" /\ out = "Ok") => ctr = DimX)     \* (C14 speaks about samples that are returned)
TI_Indep == InCall => Independent
TI_BM    == InCall => BoxMullerMap
TI_Narrow == InCall => NarrowOnlyLambda
TI_Sector == InCall => SectorFormula
TI_Flags == InCall => (FlagsOK /\ FlagsComplete)
TI_Logs  == InCall => LogsOK
TI_OutDeps == InCall => OutDepsOK
TI_Kin == InCall => KinTypeOK

ASSUME TLCSet(1, 1)
Track == TLCSet(1, IF l > TLCGet(1) THEN l ELSE TLCGet(1))
TraceAccepted ==
   IF TLCGet(1) = Len(Rec) + 1 THEN TRUE
   ELSE /\ PrintT(<<"REJECT", TLCGet(1), ToJson(Rec[TLCGet(1)])>>)
        /\ FALSE
=============================================================================
