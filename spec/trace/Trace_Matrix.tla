---------------------------- MODULE Trace_Matrix ----------------------------
(***************************************************************************)
(* Trace validation (mode V) for C15 (accuracy classes) and C16 (outcome    *)
(* classes) of decompose_for_tropical.  One event per call:                 *)
(*   Dec  result   "Ok" | "ZeroDet" | "Unstable" | "Panic"                  *)
(*        dq       class of the pivot product at the code's `== zero` test  *)
(*                 (observed with the tracking scalar)                      *)
(*        det      class of the returned determinant                        *)
(*        tolc     "none" | "some"      err  class of the L_{2,1} residual  *)
(*        nan      a returned matrix or the determinant contains NaN        *)
(*        spd, condok   the input is positive definite (exact test) with    *)
(*                 condition number <= 1e10                                 *)
(*        acc_*    accuracy of determinant / inverse / factor identities    *)
(*                 within K n^2 eps cond of exact rational linear algebra   *)
(*        tri, posdiag  shape of q_transposed                               *)
(*        narrow   number of to_f64 conversions the call made (C19: none)   *)
(* Each call is independent; the trace is accepted iff every event          *)
(* satisfies the class predicate of Matrix.tla and the accuracy clause.     *)
(***************************************************************************)
EXTENDS Integers, Sequences, TLC, Json, IOUtils
VARIABLES l, bad       \* next line; lines whose event is not allowed (every event is judged, the calls are independent)
Rec == ndJsonDeserialize(IOEnv.TRACE)

\* the class predicate of Matrix.tla (ClassOK), restated on the event's fields
ClassOK(e) ==
   /\ (e.dq = "zero" => e.result = "ZeroDet")
   /\ (e.result = "Ok" => e.det # "zero")
   /\ (e.result = "Ok" /\ e.tolc = "some") => (e.err \in {"le", "border"} /\ ~e.nan)
   /\ e.result # "Panic"
\* C15: for positive-definite inputs of moderate condition the call succeeds (unless the caller's own
\* tolerance rejects it) and everything returned is accurate
AccuracyOK(e) ==
   (e.spd /\ e.condok) =>
      /\ e.result \in {"Ok", "Unstable"}
      /\ (e.result = "Unstable" => e.tolc = "some")
      /\ (e.result = "Ok" => (e.acc_det /\ e.acc_inv /\ e.acc_qtq /\ e.acc_qtiq /\ e.tri /\ e.posdiag /\ e.det = "pos"))
\* the generic code behaves identically for the tracking scalar, and never narrows (C19)
GenericOK(e) == e.tr_result = e.result /\ e.narrow = 0 /\ e.dbg_same   \* print_debug_info does not change the result (C17)

Init == l = 1 /\ bad = <<>>
Dec == /\ l <= Len(Rec) /\ Rec[l].ev = "Dec"
       /\ bad' = IF ClassOK(Rec[l]) /\ AccuracyOK(Rec[l]) /\ GenericOK(Rec[l]) THEN bad ELSE Append(bad, l)
       /\ l' = l + 1
TSpec == Init /\ [][Dec]_<<l, bad>>
\* the verdict is taken in the last state: every line consumed and none rejected; rejected lines are printed
Done == l = Len(Rec) + 1
Verdict == Done => (IF bad = <<>> THEN TRUE
                    ELSE PrintT(<<"REJECTED", ToJson([lines |-> SubSeq(bad, 1, IF Len(bad) > 400 THEN 400 ELSE Len(bad)), total |-> Len(bad)])>>) /\ FALSE)
TraceAccepted == TLCGet("stats").diameter - 1 = Len(Rec)
=============================================================================
