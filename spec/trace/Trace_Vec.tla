------------------------------ MODULE Trace_Vec ------------------------------
(***************************************************************************)
(* Trace validation (mode V) for C20.  Events:                              *)
(*   Term  op, D, terms   the term(s) the real Vector<Tr, D> operator built *)
(*                        for leaves v = L(1,i), w = L(2,i), scalar L(3,0)  *)
(*   Len   D, ok          len() = D                                         *)
(*   Numeric D, mismatches  the recorded terms evaluated in IEEE arithmetic *)
(*                        vs. the f64 instantiation on random vectors       *)
(*   Float tried, bad     f64 implementation of MomTropFloat vs. std        *)
(* Each Term must equal, modulo commutativity of + and *, the term          *)
(* VectorAlg.tla defines for that operation.                                *)
(***************************************************************************)
EXTENDS VectorAlg, TLC, Json, IOUtils
VARIABLE l
Rec == ndJsonDeserialize(IOEnv.TRACE)
S == <<"L", 3, 0>>
Expected(op, d) ==
   LET v == Leaves(1, d)  w == Leaves(2, d) IN
   CASE op = "add"          -> VAddT(v, w)
     [] op = "sub"          -> VSubT(v, w)
     [] op = "mulT"         -> VScaleT(v, S)
     [] op = "mulRef"       -> VScaleT(v, S)
     [] op = "addassign"    -> VAddT(v, w)
     [] op = "dot"          -> <<DotT(v, w)>>
     [] op = "squared"      -> <<SquaredT(v)>>
     [] op = "new"          -> ZeroT(d)
     [] op = "new_from_num" -> ZeroT(d)
     [] op = "zero"         -> <<Z>>
     [] op = "from_array"   -> v
     [] op = "from_slice"   -> v
     [] op = "from_vec"     -> v
     [] op = "index"        -> v
     [] op = "index_mut"    -> [i \in 1..d |-> IF i = d THEN S ELSE v[i]]
\* dot and squared must also accumulate from index 0 (ordered equality of the fold spine)
RECURSIVE SpineOK(_, _)
SpineOK(t, n) == IF n = 0 THEN t[1] = "Z"
                 ELSE t[1] = "Add" /\ t[3][1] = "Mul" /\ SpineOK(t[2], n - 1)
Init == l = 1
TTerm == /\ l <= Len(Rec) /\ Rec[l].ev = "Term"
         /\ VecEqC(Rec[l].terms, Expected(Rec[l].op, Rec[l].D))
         /\ (Rec[l].op \in {"dot", "squared"} => SpineOK(Rec[l].terms[1], Rec[l].D))
         /\ l' = l + 1
TLen == l <= Len(Rec) /\ Rec[l].ev = "Len" /\ Rec[l].ok /\ l' = l + 1
TNum == l <= Len(Rec) /\ Rec[l].ev = "Numeric" /\ Rec[l].mismatches = 0 /\ Rec[l].tried > 0 /\ l' = l + 1
TFloat == l <= Len(Rec) /\ Rec[l].ev = "Float" /\ Rec[l].bad = <<>> /\ Rec[l].tried > 0 /\ l' = l + 1
TSpec == Init /\ [][TTerm \/ TLen \/ TNum \/ TFloat]_l
Track == TRUE
TraceAccepted ==
   IF TLCGet("stats").diameter - 1 = Len(Rec) THEN TRUE
   ELSE /\ PrintT(<<"REJECT", TLCGet("stats").diameter, ToJson(Rec[TLCGet("stats").diameter])>>)
        /\ FALSE
=============================================================================
