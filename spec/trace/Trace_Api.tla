----------------------------- MODULE Trace_Api -----------------------------
(***************************************************************************)
(* Trace validation (mode V) of recorded API histories against Api.tla.    *)
(* Events (one line each, in the order the harness' recorder lock saw      *)
(* them):                                                                  *)
(*   Build sid, origin      Clone sid, from      Ser sid, blob             *)
(*   De blob, sid           Begin t, sid, arg    End t, res                *)
(*   Query sid, what, res   (dimension / dod / table digest of an object)  *)
(*   Rng t, draws, dim      generate_sample_from_rng drew `draws` numbers  *)
(* `origin`, `arg`, `res` are small integers interning graphs, argument    *)
(* tuples and bit-exact result digests.  `truth` is not known in advance:  *)
(* it is learnt (memo) and every later observation must agree.             *)
(***************************************************************************)
EXTENDS Integers, Sequences, FiniteSets, TLC, Json, IOUtils
Rec == ndJsonDeserialize(IOEnv.TRACE)

VARIABLES samplers, blobs, thr, memo, qmemo, l
tvars == <<samplers, blobs, thr, memo, qmemo, l>>
\* finite maps as functions over the keys seen so far
Get(f, k)  == IF k \in DOMAIN f THEN f[k] ELSE 0
Put(f, k, v) == [x \in DOMAIN f \cup {k} |-> IF x = k THEN v ELSE f[x]]
Empty == [x \in {} |-> 0]

TInit == samplers = Empty /\ blobs = Empty /\ thr = Empty /\ memo = Empty /\ qmemo = Empty /\ l = 1
IsEvent(e) == l <= Len(Rec) /\ Rec[l].ev = e /\ l' = l + 1

TBuild == /\ IsEvent("Build") /\ Get(samplers, Rec[l].sid) = 0
          /\ samplers' = Put(samplers, Rec[l].sid, Rec[l].origin)
          /\ UNCHANGED <<blobs, thr, memo, qmemo>>
TClone == /\ IsEvent("Clone") /\ Get(samplers, Rec[l].from) # 0 /\ Get(samplers, Rec[l].sid) = 0
          /\ samplers' = Put(samplers, Rec[l].sid, samplers[Rec[l].from])
          /\ UNCHANGED <<blobs, thr, memo, qmemo>>
TSer == /\ IsEvent("Ser") /\ Get(samplers, Rec[l].sid) # 0 /\ Get(blobs, Rec[l].blob) = 0
        /\ blobs' = Put(blobs, Rec[l].blob, samplers[Rec[l].sid])
        /\ UNCHANGED <<samplers, thr, memo, qmemo>>
TDe == /\ IsEvent("De") /\ Get(blobs, Rec[l].blob) # 0 /\ Get(samplers, Rec[l].sid) = 0
       /\ samplers' = Put(samplers, Rec[l].sid, blobs[Rec[l].blob])
       /\ UNCHANGED <<blobs, thr, memo, qmemo>>
Call(t) == IF t \in DOMAIN thr THEN thr[t] ELSE <<>>          \* <<>> = thread idle
TBegin == /\ IsEvent("Begin") /\ Call(Rec[l].t) = <<>> /\ Get(samplers, Rec[l].sid) # 0
          /\ thr' = Put(thr, Rec[l].t, <<Rec[l].sid, Rec[l].arg>>)
          /\ UNCHANGED <<samplers, blobs, memo, qmemo>>
\* End: the result must be what was learnt for (origin, arg), or is learnt now
TEnd == /\ IsEvent("End") /\ Call(Rec[l].t) # <<>>
        /\ LET c == thr[Rec[l].t]
               k == <<samplers[c[1]], c[2]>>
           IN /\ (IF Get(memo, k) = 0 THEN TRUE ELSE memo[k] = Rec[l].res)
              /\ memo' = Put(memo, k, Rec[l].res)
        /\ thr' = Put(thr, Rec[l].t, <<>>)
        /\ UNCHANGED <<samplers, blobs, qmemo>>
\* queries (dimension, dod, table digest) are functions of the origin as well
TQuery == /\ IsEvent("Query") /\ Get(samplers, Rec[l].sid) # 0
          /\ LET k == <<samplers[Rec[l].sid], Rec[l].what>>
             IN /\ (IF Get(qmemo, k) = 0 THEN TRUE ELSE qmemo[k] = Rec[l].res)
                /\ qmemo' = Put(qmemo, k, Rec[l].res)
          /\ UNCHANGED <<samplers, blobs, thr, memo>>
\* generate_sample_from_rng draws exactly get_dimension() numbers
TRng == /\ IsEvent("Rng") /\ Rec[l].draws = Rec[l].dim /\ Rec[l].same_numbers
        /\ UNCHANGED <<samplers, blobs, thr, memo, qmemo>>

TNext == TBuild \/ TClone \/ TSer \/ TDe \/ TBegin \/ TEnd \/ TQuery \/ TRng
TSpec == TInit /\ [][TNext]_tvars
Track == TRUE
TraceAccepted ==
   IF TLCGet("stats").diameter - 1 = Len(Rec) THEN TRUE
   ELSE /\ PrintT(<<"REJECT", TLCGet("stats").diameter, ToJson(Rec[TLCGet("stats").diameter])>>)
        /\ FALSE
=============================================================================
