----------------------------- MODULE Trace_Gamma -----------------------------
(***************************************************************************)
(* Trace validation (mode V) for C12: one event per call of                *)
(* gamma::inverse_gamma_lr(a, p, 50, 5.0):                                 *)
(*   Gamma  cls      "Err" | "OkPos" | "OkZero" | "OkNeg" | "OkInf" |      *)
(*                   "OkNan" | "Panic: ..."                                *)
(*          indomain the true quantile is at least 1e-13 (p >= P(a,1e-13)) *)
(*          acc      |P(a, lambda) - p| <= 2e-8  (harness' independent P)  *)
(*          mono     not below the previous in-domain value by > 4e-8      *)
(* The outcome automaton of Gamma.tla ends in Err or OkPos only; in the    *)
(* domain a value must be returned and be accurate and monotone.           *)
(***************************************************************************)
EXTENDS Integers, Sequences, TLC, Json, IOUtils
VARIABLES l, bad       \* next line; lines whose event is not allowed (every call is judged on its own)
Rec == ndJsonDeserialize(IOEnv.TRACE)
Init == l = 1 /\ bad = <<>>
GammaOK(e) == /\ e.cls \in {"Err", "OkPos"}
              /\ (e.indomain => (e.cls = "OkPos" /\ e.acc /\ e.mono))
Step == /\ l <= Len(Rec) /\ Rec[l].ev = "Gamma"
        /\ bad' = IF GammaOK(Rec[l]) THEN bad ELSE Append(bad, l)
        /\ l' = l + 1
TSpec == Init /\ [][Step]_<<l, bad>>
Track == TRUE
\* the verdict is taken in the last state: every line consumed and none rejected; rejected lines are printed
Done == l = Len(Rec) + 1
Verdict == Done => (IF bad = <<>> THEN TRUE
                    ELSE PrintT(<<"REJECTED", ToJson([lines |-> SubSeq(bad, 1, IF Len(bad) > 400 THEN 400 ELSE Len(bad)), total |-> Len(bad)])>>) /\ FALSE)
TraceAccepted == TLCGet("stats").diameter - 1 = Len(Rec)
=============================================================================
