----------------------------- MODULE Trace_Gamma -----------------------------
(***************************************************************************)
(* Trace validation (mode V) for C12: one event per call of                *)
(* gamma::inverse_gamma_lr(a, p, 50, 5.0):                                 *)
(*   Gamma  cls      "Err" | "OkPos" | "OkZero" | "OkNeg" | "OkInf" |      *)
(*                   "OkNan" | "Panic: ..."                                *)
(*          indomain the true quantile is at least 1e-13 (p >= P(a,1e-13)) *)
(*          acc      |P(a, lambda) - p| <= 2e-8  (harness' independent P)  *)
(*          mono     not below the previous in-domain value by > 4e-8      *)
(* The outcome automaton of Gamma.tla ends in Err or OkPos only; in the    *)
(* domain a value must be returned and be accurate and monotone.           *)
(***************************************************************************)
EXTENDS Integers, Sequences, TLC, Json, IOUtils
VARIABLE l
Rec == ndJsonDeserialize(IOEnv.TRACE)
Init == l = 1
GammaOK(e) == /\ e.cls \in {"Err", "OkPos"}
              /\ (e.indomain => (e.cls = "OkPos" /\ e.acc /\ e.mono))
Step == /\ l <= Len(Rec) /\ Rec[l].ev = "Gamma" /\ GammaOK(Rec[l]) /\ l' = l + 1
TSpec == Init /\ [][Step]_l
Track == TRUE
TraceAccepted ==
   IF TLCGet("stats").diameter - 1 = Len(Rec) THEN TRUE
   ELSE /\ PrintT(<<"REJECT", TLCGet("stats").diameter, ToJson(Rec[TLCGet("stats").diameter])>>)
        /\ FALSE
=============================================================================
