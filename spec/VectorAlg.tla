----------------------------- MODULE VectorAlg -----------------------------
(***************************************************************************)
(* Declarative layer for vector::Vector<T, D>: every operation as a term   *)
(* of the free algebra over the scalar operations of T.  Terms are tuples: *)
(*   <<"L", kind, idx>> leaf   <<"Z">> zero()   <<"Add", s, t>>            *)
(*   <<"Sub", s, t>>   <<"Mul", s, t>>                                     *)
(* The harness records the term the real code builds (tracking scalar) and *)
(* TLC compares it with the term below, modulo commutativity of the IEEE   *)
(* operations + and * (which are commutative bit for bit).                 *)
(***************************************************************************)
EXTENDS Integers, Sequences

Z == <<"Z">>
TAdd(s, t) == <<"Add", s, t>>
TSub(s, t) == <<"Sub", s, t>>
TMul(s, t) == <<"Mul", s, t>>

VAddT(v, w)   == [i \in 1..Len(v) |-> TAdd(v[i], w[i])]
VSubT(v, w)   == [i \in 1..Len(v) |-> TSub(v[i], w[i])]
VScaleT(v, s) == [i \in 1..Len(v) |-> TMul(v[i], s)]
\* dot and squared accumulate from index 0 onto zero()
RECURSIVE DotFrom(_, _, _, _)
DotFrom(v, w, i, acc) == IF i > Len(v) THEN acc ELSE DotFrom(v, w, i + 1, TAdd(acc, TMul(v[i], w[i])))
DotT(v, w)    == DotFrom(v, w, 1, Z)
SquaredT(v)   == DotT(v, v)
ZeroT(d)      == [i \in 1..d |-> Z]

\* equality modulo commutativity of Add and Mul (heads are compared first so that TLC never compares
\* values of different kinds)
RECURSIVE EqC(_, _)
EqC(s, t) ==
   IF s[1] # t[1] THEN FALSE
   ELSE IF s[1] \in {"Add", "Mul"}
        THEN (EqC(s[2], t[2]) /\ EqC(s[3], t[3])) \/ (EqC(s[2], t[3]) /\ EqC(s[3], t[2]))
   ELSE IF s[1] = "Sub" THEN EqC(s[2], t[2]) /\ EqC(s[3], t[3])
   ELSE IF s[1] = "L" THEN s[2] = t[2] /\ s[3] = t[3]
   ELSE IF s[1] = "Z" THEN TRUE
   ELSE FALSE
\* strict (ordered) equality
RECURSIVE EqS(_, _)
EqS(s, t) ==
   IF s[1] # t[1] THEN FALSE
   ELSE IF s[1] \in {"Add", "Mul", "Sub"} THEN EqS(s[2], t[2]) /\ EqS(s[3], t[3])
   ELSE IF s[1] = "L" THEN s[2] = t[2] /\ s[3] = t[3]
   ELSE s[1] = "Z"
VecEqC(v, w) == Len(v) = Len(w) /\ \A i \in 1..Len(v) : EqC(v[i], w[i])

Leaves(k, d) == [i \in 1..d |-> <<"L", k, i - 1>>]
\* lemmas (checked for D = 1..8 by MC_Vec)
LemmaSquared(d)  == EqS(SquaredT(Leaves(1, d)), DotT(Leaves(1, d), Leaves(1, d)))
LemmaDotSym(d)   == EqC(DotT(Leaves(1, d), Leaves(2, d)), DotT(Leaves(2, d), Leaves(1, d)))
LemmaDotNotSub(d) == ~EqC(DotT(Leaves(1, d), Leaves(2, d)), SquaredT(Leaves(1, d)))
=============================================================================
