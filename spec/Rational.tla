----------------------------- MODULE Rational -----------------------------
(***************************************************************************)
(* Exact rational arithmetic on pairs <<n,d>> (d > 0, gcd(n,d) = 1) for   *)
(* TLC.  TLC integers are 32-bit and TLC *raises* on overflow, so every   *)
(* product is guarded: an operation whose exact result (or an             *)
(* intermediate) would not fit returns the token OVF = <<0,0>>, which      *)
(* propagates.  Callers count OVF instances as "skipped"; an OVF is never *)
(* compared with anything.                                                 *)
(***************************************************************************)
EXTENDS Integers

MAXI == 2147483647
OVF  == <<0, 0>>
IsOvf(r) == r[2] = 0

Abs(x) == IF x < 0 THEN -x ELSE x

RECURSIVE Gcd(_, _)
Gcd(a, b) == IF b = 0 THEN a ELSE Gcd(b, a % b)

\* a*b fits in 32 bits (a, b arbitrary ints)
MulOk(a, b) == a = 0 \/ b = 0 \/ Abs(a) <= MAXI \div Abs(b)
AddOk(a, b) == IF a >= 0 /\ b >= 0 THEN a <= MAXI - b
               ELSE IF a < 0 /\ b < 0 THEN -a <= MAXI - (-b)
               ELSE TRUE

Norm(n, d) == IF d = 0 THEN OVF
              ELSE LET g == Gcd(Abs(n), Abs(d))
                       s == IF d < 0 THEN -1 ELSE 1
                   IN <<s * (n \div g), s * (d \div g)>>

I2R(i)  == <<i, 1>>
Zero    == <<0, 1>>
One     == <<1, 1>>

RMul(a, b) == IF IsOvf(a) \/ IsOvf(b) THEN OVF
              ELSE LET g1 == Gcd(Abs(a[1]), b[2])
                       g2 == Gcd(Abs(b[1]), a[2])
                       n1 == a[1] \div g1   n2 == b[1] \div g2
                       d1 == a[2] \div g2   d2 == b[2] \div g1
                   IN IF MulOk(n1, n2) /\ MulOk(d1, d2) THEN <<n1 * n2, d1 * d2>> ELSE OVF

RInv(a) == IF IsOvf(a) \/ a[1] = 0 THEN OVF
           ELSE IF a[1] < 0 THEN <<-a[2], -a[1]>> ELSE <<a[2], a[1]>>

RDiv(a, b) == RMul(a, RInv(b))

RAdd(a, b) == IF IsOvf(a) \/ IsOvf(b) THEN OVF
              ELSE LET g  == Gcd(a[2], b[2])
                       bd == b[2] \div g
                       ad == a[2] \div g
                   IN IF MulOk(a[1], bd) /\ MulOk(b[1], ad) /\ MulOk(a[2], bd)
                      THEN LET x == a[1] * bd  y == b[1] * ad
                           IN IF AddOk(x, y) THEN Norm(x + y, a[2] * bd) ELSE OVF
                      ELSE OVF

RNeg(a)    == IF IsOvf(a) THEN OVF ELSE <<-a[1], a[2]>>
RSub(a, b) == RAdd(a, RNeg(b))

\* comparisons: only meaningful on non-OVF values (callers check)
RLe(a, b) == LET g == Gcd(a[2], b[2]) IN a[1] * (b[2] \div g) <= b[1] * (a[2] \div g)
RLt(a, b) == LET g == Gcd(a[2], b[2]) IN a[1] * (b[2] \div g) <  b[1] * (a[2] \div g)
RCmpOk(a, b) == ~IsOvf(a) /\ ~IsOvf(b) /\
                LET g == Gcd(a[2], b[2]) IN MulOk(a[1], b[2] \div g) /\ MulOk(b[1], a[2] \div g)
RPos(a) == a[1] > 0 /\ a[2] > 0

\* integer square root on perfect squares; -1 otherwise
RECURSIVE ISqrtFrom(_, _)
ISqrtFrom(n, k) == IF k * k = n THEN k ELSE IF k * k > n THEN -1 ELSE ISqrtFrom(n, k + 1)
ISqrt(n) == IF n < 0 THEN -1 ELSE ISqrtFrom(n, 0)
\* rational square root, defined on squares of rationals only (else OVF)
RSqrt(a) == IF IsOvf(a) THEN OVF
            ELSE LET sn == ISqrt(a[1])  sd == ISqrt(a[2])
                 IN IF sn < 0 \/ sd <= 0 THEN OVF ELSE <<sn, sd>>
=============================================================================
