----------------------------- MODULE MC_Build -----------------------------
(* TLC check of the Build machine against the declarative table (C03, C04, C05). *)
EXTENDS Build, GraphGen
CONSTANTS V, EMIN, EMAX, WSET, WD, DSET, EXTV
MCSkeletons == UNION {EdgeSeqs(V, n) : n \in EMIN..EMAX}
MCDecorate(sk) == LET n == Len(sk) IN
   {[edges |-> sk, mass |-> m, w |-> w, wd |-> WD, ext |-> x, D |-> d] :
        m \in MassPats(n), w \in WeightPats(n, WSET), x \in SUBSET (1..EXTV), d \in DSET}
=============================================================================
