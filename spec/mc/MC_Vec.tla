------------------------------- MODULE MC_Vec -------------------------------
EXTENDS VectorAlg, TLC
VARIABLE d
Init == d = 1
Next == d < 8 /\ d' = d + 1
Spec == Init /\ [][Next]_d
Lemmas == LemmaSquared(d) /\ LemmaDotSym(d) /\ LemmaDotNotSub(d)
           /\ VecEqC(VAddT(Leaves(1, d), Leaves(2, d)), VAddT(Leaves(2, d), Leaves(1, d)))
           /\ ~VecEqC(VSubT(Leaves(1, d), Leaves(2, d)), VSubT(Leaves(2, d), Leaves(1, d)))
=============================================================================
