SPECIFICATION Spec
CONSTANTS
  V = 2
  EMIN = 3
  EMAX = 3
  WSET = {2,4,6}
  WD = 4
  DSET = {1,3}
  EXTV = 3
  Skeletons <- MCSkeletons
  Decorate <- MCDecorate
INVARIANTS TypeOK TableCorrect PrefixCorrect BfsCorrect BfsPartial JCorrect MemoSound ProbSumOne RejectIff FirstDivergent
PROPERTY OracleConst
CHECK_DEADLOCK FALSE
