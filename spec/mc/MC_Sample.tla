----------------------------- MODULE MC_Sample -----------------------------
(* TLC check of the Sample machine on every accepted graph of a small family:
   read cursor and roles (C14), Box-Muller index map (C13), narrowing (C19), totality of the
   edge choice (C06), sector formula, tropical flags and the rescaling identity (C07, C11),
   purity (C17), log stream, termination. *)
EXTENDS Sample, GraphGen
CONSTANTS V, EMIN, EMAX, WSET, WD, DSET, EXTV

NoGraph == [edges |-> <<>>, mass |-> <<>>, w |-> <<>>, wd |-> 2, ext |-> {}, D |-> 0]
NoTab   == [l |-> <<0>>, s |-> <<FALSE>>, w |-> <<2>>, j |-> <<One>>]
Cfgs    == [stab : BOOLEAN, debug : BOOLEAN, meta : {FALSE}, massargs : {{}}, loopedges : {{}}]

MCInit == InitCall(NoGraph, NoTab, [stab |-> FALSE, debug |-> FALSE, meta |-> FALSE, massargs |-> {}, loopedges |-> {}]) /\ pc = "sector"

\* picking happens from the dummy call state (E = 0): first the skeleton, then the decorations
PickSkeleton ==
   /\ NE(g) = 0 /\ pc = "sector" /\ tab = NoTab
   /\ \E n \in EMIN..EMAX : \E sk \in EdgeSeqs(V, n) :
        /\ g' = [NoGraph EXCEPT !.edges = sk, !.mass = [i \in 1..n |-> FALSE], !.w = [i \in 1..n |-> 0]]
        /\ tab' = [NoTab EXCEPT !.j = <<>>]
   /\ UNCHANGED <<cfg, pc, cur, order, ctr, roles, pend, nxi, om, utrE, vtrE, kdeps, xdeps, ctl, narrowed, lamdeps, qsrc, scale, logs, outdeps, out>>
PickGraph ==
   /\ NE(g) > 0 /\ tab.j = <<>> /\ Len(tab.l) = 1
   /\ LET n == NE(g) IN
      \E m \in MassPats(n), w \in WeightPats(n, WSET), x \in SUBSET (1..EXTV), d \in DSET, c \in Cfgs :
         LET gr == [edges |-> g.edges, mass |-> m, w |-> w, wd |-> WD, ext |-> x, D |-> d]
         IN /\ Accepted(gr)
            /\ StartCall(gr, FullTable(gr), c)

Picking == (NE(g) = 0) \/ (tab.j = <<>>)
\* each action of Sample as a named disjunct, so that TLC's coverage reports it separately
A_PickEdge   == ~Picking /\ \E e \in 1..E : PickEdge(e)
A_LastEdge   == ~Picking /\ LastEdge
A_Assign     == ~Picking /\ Assign
A_DrawXi     == ~Picking /\ DrawXi
A_Rescale    == ~Picking /\ Rescale
A_DecompOk   == ~Picking /\ Decompose("Ok")
A_DecompErr  == ~Picking /\ \E r \in {"ErrZeroDet", "ErrUnstable"} : Decompose(r)
A_LambdaOk   == ~Picking /\ DrawLambda("Ok")
A_LambdaErr  == ~Picking /\ DrawLambda("ErrGamma")
A_BoxMullerA == ~Picking /\ BoxMullerA
A_BoxMullerB == ~Picking /\ BoxMullerB
A_UVectors   == ~Picking /\ UVectors
A_VPoly      == ~Picking /\ VPoly
A_Momenta    == ~Picking /\ Momenta
A_Jacobian   == ~Picking /\ Jacobian
A_Return     == ~Picking /\ Return
A_Terminated == ~Picking /\ Terminated
MCNext == PickSkeleton \/ PickGraph \/ A_PickEdge \/ A_LastEdge \/ A_Assign \/ A_DrawXi \/ A_Rescale
          \/ A_DecompOk \/ A_DecompErr \/ A_LambdaOk \/ A_LambdaErr \/ A_BoxMullerA \/ A_BoxMullerB
          \/ A_UVectors \/ A_VPoly \/ A_Momenta \/ A_Jacobian \/ A_Return \/ A_Terminated
MCSpec == MCInit /\ [][MCNext]_vars
MCFair == MCSpec /\ WF_vars(MCNext)

\* invariants are about calls, not about the picking phase
G(P) == Picking \/ P
I_TypeOK == G(TypeOK)           I_RolesOK == G(RolesOK)        I_ReadsAtExit == G(ReadsAtExit)
I_Independent == G(Independent) I_BoxMullerMap == G(BoxMullerMap)
I_NarrowOnlyLambda == G(NarrowOnlyLambda)   I_SectorTotal == G(SectorTotal)
I_SectorFormula == G(SectorFormula)  I_FlagsOK == G(FlagsOK)  I_RescaleNormalises == G(RescaleNormalises)
I_FlagsComplete == G(FlagsComplete)  I_LogsOK == G(LogsOK)   I_OutDepsOK == G(OutDepsOK)
PureCalls == [][~Picking => (g' = g /\ tab' = tab /\ cfg' = cfg)]_vars
Terminates == <>(~Picking => pc = "done")
=============================================================================
