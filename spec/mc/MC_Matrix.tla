----------------------------- MODULE MC_Matrix -----------------------------
(* TLC check of the exact-mode Matrix machine (C15) on every M = R^T R with R upper triangular,
   diagonal in DIAG (0 allowed: singular inputs), off-diagonal in -OFFK..OFFK, dimension NMIN..NMAX;
   and of the class-mode predicate (C16) over all class combinations. *)
EXTENDS Matrix
CONSTANTS NMIN, NMAX, DIAG, OFFK, TOLS
VARIABLES rr, phase
allvars == <<mvars, rr, phase>>
OFFS == (-OFFK)..OFFK
MCTols == {<<"none">>, <<"some", <<1, 1000>>>>}

Dummy == <<<<One>>>>
Init == /\ phase = "pick" /\ rr = <<>> /\ MInit(Dummy, <<"none">>) /\ pc = "chol"
PickDim == /\ phase = "pick" /\ rr = <<>>
           /\ \E k \in NMIN..NMAX : rr' = <<k>>
           /\ UNCHANGED <<mvars, phase>>
\* rr = <<n, row_1, ..., row_k>> ; rows of R
PickRow == /\ phase = "pick" /\ rr # <<>> /\ Len(rr) - 1 < rr[1]
           /\ LET k == Len(rr) IN
              \E d \in DIAG : \E off \in [(k + 1)..rr[1] -> OFFS] :
                 rr' = Append(rr, [c \in 1..rr[1] |-> IF c < k THEN 0 ELSE IF c = k THEN d ELSE off[c]])
           /\ UNCHANGED <<mvars, phase>>
Start == /\ phase = "pick" /\ rr # <<>> /\ Len(rr) - 1 = rr[1]
         /\ LET k == rr[1]
                R == [r \in 1..k |-> rr[r + 1]]
                m == [r \in 1..k |-> [c \in 1..k |-> I2R(FoldSet(LAMBDA j, a : a + R[j][r] * R[j][c], 0, 1..k))]]
            IN \E t \in TOLS :
               /\ M' = m /\ n' = k /\ pc' = "chol" /\ i' = 1 /\ q' = ZeroM(k) /\ detq' = One /\ invd' = <<>>
               /\ nm' = <<>> /\ pw' = <<>> /\ acc' = <<>> /\ res' = NoRes /\ tol' = t
         /\ phase' = "run" /\ UNCHANGED rr
A_CholRow   == phase = "run" /\ CholRow   /\ UNCHANGED <<rr, phase>>
A_DetStep   == phase = "run" /\ DetStep   /\ UNCHANGED <<rr, phase>>
A_NMat      == phase = "run" /\ NMat      /\ UNCHANGED <<rr, phase>>
A_PowerStep == phase = "run" /\ PowerStep /\ UNCHANGED <<rr, phase>>
A_AltSum    == phase = "run" /\ AltSum    /\ UNCHANGED <<rr, phase>>
A_Finish    == phase = "run" /\ Finish    /\ UNCHANGED <<rr, phase>>
A_Stability == phase = "run" /\ Stability /\ UNCHANGED <<rr, phase>>
A_Done      == phase = "run" /\ MDone     /\ UNCHANGED <<rr, phase>>
Next == PickDim \/ PickRow \/ Start \/ A_CholRow \/ A_DetStep \/ A_NMat \/ A_PowerStep \/ A_AltSum
        \/ A_Finish \/ A_Stability \/ A_Done
Spec == Init /\ [][Next]_allvars
\* liveness: under weak fairness every started run reaches one of the four outcomes (no loop of the
\* routine can spin: each has a strictly increasing index bounded by the dimension)
FairSpec == Spec /\ WF_allvars(Next)
RunTerminates == <>(phase = "run" /\ pc \in {"ok", "zerodet", "unstable", "undefined"})

Running == phase = "run"
I_CholPartial == Running => CholPartial
I_ExactOK == Running => ExactOK
I_Nilpotent == Running => Nilpotent
I_ZeroDetSound == Running => ZeroDetSound
I_OkNonSingular == Running => OkNonSingular
\* with a positive diagonal the run never leaves exact mode and ends Ok with the factor R itself
I_FactorIsR == (Running /\ pc = "ok" /\ (\A k \in 1..n : rr[k + 1][k] > 0)) =>
                  res.qt = [r \in 1..n |-> [c \in 1..n |-> I2R(rr[r + 1][c])]]
I_SingularIsReported == (Running /\ pc \in {"ok", "unstable"}) => (\A k \in 1..n : rr[k + 1][k] # 0)

\* class mode: the property is satisfiable and the pre-fix behaviour violated it (documentation of D2/D3)
DQ == {"zero", "nonzero", "nan"}   DET == {"zero", "pos", "nan", "inf", "neg"}   TOLC == {"none", "some"}
ERR == {"le", "border", "gt", "nan", "na"}   RES == {"Ok", "ZeroDet", "Unstable"}
ASSUME \E dq \in DQ, det \in DET, tc \in TOLC, e \in ERR, nn \in BOOLEAN, r \in RES :
          ClassAsCodedBefore(dq, det, tc, e, nn, r) /\ ~ClassOK(dq, det, tc, e, nn, r)
=============================================================================
