---------------------------- MODULE MC_TropBound ----------------------------
(***************************************************************************)
(* The tropical theorem behind C02 and C07, checked on exact integers:      *)
(* for every connected multigraph of a small family, every mass pattern,    *)
(* every generic reference flow (it fixes the external momenta and the      *)
(* external vertices), every removal order sigma and every assignment of    *)
(* parameters that is non-increasing along sigma (ties included):           *)
(*   InvU   the product of the parameters of the edges whose removal lowers *)
(*          the loop number (the sampler's u_trop rule) is the largest      *)
(*          monomial of U                                                   *)
(*   InvV   that product times the parameter of the edge whose removal      *)
(*          destroys mass-momentum spanning (the v_trop rule) is the        *)
(*          largest monomial of F with a non-zero coefficient               *)
(*   InvB   U_tr <= U <= N_T U_tr   and   c_min F_tr <= F <= C_sum F_tr     *)
(* The flags are computed exactly as Sample!Assign does, from the           *)
(* declarative table.                                                       *)
(***************************************************************************)
EXTENDS Symanzik, GraphGen, TLC
CONSTANTS V, EMIN, EMAX, LMAX, DD, PK, MS, XS
PS == (-PK)..PK
Vec == [1..DD -> PS]
VARIABLE st

Skel(es) == [edges |-> es, mass |-> [i \in 1..Len(es) |-> FALSE], w |-> [i \in 1..Len(es) |-> 4],
             wd |-> 4, ext |-> {}, D |-> DD]
Generic(g, p0) == \A W \in SUBSET g.ext : (W # {} /\ W # g.ext) => PIn(g, p0, W, DD) # VZero(DD)

Init == st = [k |-> "root"]
PickGraph ==
   /\ st.k = "root"
   /\ \E n \in EMIN..EMAX : \E es \in EdgeSeqs(V, n) :
        LET g == Skel(es)
        IN /\ Connected(g) /\ Loops(g, Full(g)) >= 1 /\ Loops(g, Full(g)) <= LMAX
           /\ st' = [k |-> "g", es |-> es]
PickKin ==
   /\ st.k = "g"
   /\ LET n == Len(st.es) IN
      \E m \in [1..n -> MS], p0 \in [1..n -> Vec] :
         LET g == [Skel(st.es) EXCEPT !.mass = [i \in 1..n |-> m[i] > 0], !.ext = ExtOf(Skel(st.es), p0, DD)]
             m2 == [e \in 1..n |-> m[e] * m[e]]
         IN /\ Generic(g, p0)
            /\ FCoefValues(g, p0, m2, DD) # {0}              \* F is not identically zero
            /\ st' = [k |-> "k", g |-> g, m2 |-> m2, p0 |-> p0]
\* an order and a non-increasing assignment along it
PickSector ==
   /\ st.k = "k"
   /\ LET g == st.g  n == NE(g) IN
      \E sg \in {f \in [1..n -> 1..n] : \A i, j \in 1..n : i # j => f[i] # f[j]} :
      \E xs \in {f \in [1..n -> XS] : \A i \in 1..(n - 1) : f[i] >= f[i + 1]} :
         st' = [k |-> "s", g |-> g, m2 |-> st.m2, p0 |-> st.p0, sg |-> sg,
                x |-> [e \in 1..n |-> xs[CHOOSE i \in 1..n : sg[i] = e]]]
Next == PickGraph \/ PickKin \/ PickSector
Spec == Init /\ [][Next]_st

Gk(k)   == Full(st.g) \ {st.sg[j] : j \in 1..k}
UtrE    == {st.sg[k] : k \in {k \in 1..NE(st.g) : Loops(st.g, Gk(k)) < Loops(st.g, Gk(k - 1))}}
VtrK    == {k \in 1..NE(st.g) : Spanning(st.g, Gk(k - 1)) /\ ~Spanning(st.g, Gk(k))}
Utr     == Prod(st.x, UtrE)
Vtr     == IF VtrK = {} THEN 1 ELSE st.x[st.sg[Max(VtrK)]]

InvU == st.k = "s" => Max(UMonVals(st.g, st.x)) = Utr
InvV == st.k = "s" => /\ Cardinality(VtrK) = 1
                      /\ Max(FMonVals(st.g, st.x, st.p0, st.m2, DD)) = Utr * Vtr
InvB == st.k = "s" =>
   LET U  == Udecl(st.g, st.x)
       F  == Fdecl(st.g, st.x, st.p0, st.m2, DD)
       nt == NT(st.g)
   IN /\ Utr <= U /\ U <= nt * Utr
      /\ Cmin(st.g, st.p0, st.m2, DD) * Utr * Vtr <= F
      /\ F <= Csum(st.g, st.p0, st.m2, DD) * Utr * Vtr
=============================================================================
