---------------------------- MODULE MC_Symanzik ----------------------------
(***************************************************************************)
(* TLC check of the identities behind C08, C09, C10 on every connected      *)
(* multigraph of a small family, for every cycle basis obtained from a      *)
(* spanning tree by a unimodular change of basis, edge re-orientations and  *)
(* constant loop-momentum offsets:                                          *)
(*   InvU   det(S^T X S) = sum over spanning trees          (matrix-tree)   *)
(*   InvL   S^T X S is symmetric                                            *)
(*   InvF   det(L) * V = F from 2-forests and masses, whatever the routing  *)
(*   InvSq  completing the square: the identity behind the loop-momentum    *)
(*          map and `shift = L^-1 u`                                        *)
(* A behaviour picks the instance in stages (graph; tree, basis change,     *)
(* flips; numbers), so exhaustive search and -simulate both work.           *)
(***************************************************************************)
EXTENDS Symanzik, GraphGen, TLC
CONSTANTS V, EMIN, EMAX, LMAX, DD, XS, PS, MS, CS, KS

VARIABLE st
Vec(S) == [1..DD -> S]

Skeleton(es) == [edges |-> es, mass |-> [i \in 1..Len(es) |-> FALSE], w |-> [i \in 1..Len(es) |-> 4],
                 wd |-> 4, ext |-> {}, D |-> DD]

Reorient(g, R) == [g EXCEPT !.edges = [e \in 1..Len(g.edges) |-> IF e \in R THEN <<g.edges[e][2], g.edges[e][1]>> ELSE g.edges[e]]]
Init == st = [k |-> "root"]
PickGraph ==
   /\ st.k = "root"
   /\ \E n \in EMIN..EMAX : \E es \in EdgeSeqs(V, n) :
        LET g == Skeleton(es)
        IN /\ Connected(g) /\ Loops(g, Full(g)) >= 1 /\ Loops(g, Full(g)) <= LMAX
           /\ st' = [k |-> "g", g |-> g]
PickBasis ==
   /\ st.k = "g"
   /\ LET g == st.g  L == Loops(g, Full(g)) IN
      \E T \in Trees(g), A \in GL(L), R \in SUBSET Full(g) :
         \* reversing the orientation of the edges in R negates their signature rows
         st' = [k |-> "b", g |-> Reorient(g, R), T |-> T, sig |-> Flip(SigTimes(FundSig(g, T), A), R), R |-> R]
PickNumbers ==
   /\ st.k = "b"
   /\ LET g == st.g  L == Loops(g, Full(g)) IN
      \E x \in [Full(g) -> XS], p0 \in [Full(g) -> Vec(PS)], m2 \in [Full(g) -> MS],
         c \in [1..L -> Vec(CS)], k \in [1..L -> Vec(KS)] :
         st' = [k |-> "n", g |-> g, sig |-> st.sig, x |-> x, p0 |-> p0, m2 |-> m2,
                p |-> Offset(st.sig, p0, c, DD), kk |-> k]
Next == PickGraph \/ PickBasis \/ PickNumbers
Spec == Init /\ [][Next]_st

InvBasis == st.k = "b" => IsCycleBasis(st.g, st.sig)
InvL == st.k = "n" => LET M == LMat(st.g, st.sig, st.x) IN \A i, j \in 1..Len(M) : M[i][j] = M[j][i]
InvU == st.k = "n" => Ualg(st.g, st.sig, st.x) = Udecl(st.g, st.x)
\* the reference flow p0 fixes the external momenta; every routing must give the same F
InvF == st.k = "n" => Falg(st.g, st.sig, st.x, st.p, st.m2, DD) = Fdecl(st.g, st.x, st.p0, st.m2, DD)
InvSq == st.k = "n" => SquareLhs(st.g, st.sig, st.x, st.p, st.m2, st.kk, DD)
                        = SquareRhs(st.g, st.sig, st.x, st.p, st.m2, st.kk, DD)
\* L * (adj(L) u) = det(L) u : `shift = L^-1 u`
InvShift == st.k = "n" =>
   LET M == LMat(st.g, st.sig, st.x)  A == Adj(M)  d == Det(M)  n == Len(M)
   IN MatMul(M, A) = [i \in 1..n |-> [j \in 1..n |-> IF i = j THEN d ELSE 0]]
\* positivity: U > 0 for positive parameters (L is positive definite on cycle bases)
InvPos == st.k = "n" => Ualg(st.g, st.sig, st.x) > 0
=============================================================================
