//! Input-generation helpers: a cycle basis (signature matrix) for a multigraph, random accepted
//! graphs, the catalogue.  These produce INPUTS only; every expectation comes from the TLA+ side.

pub use crate::apicommon::cycle_basis;

#[cfg(test)]
mod tests {
    use super::*;
    #[test]
    fn divergence_free() {
        let edges = vec![(0, 1), (1, 2), (2, 0), (0, 1), (2, 2), (3, 4), (4, 3)];
        let sig = cycle_basis(&edges);
        let l = sig[0].len();
        assert_eq!(l, 7 - 5 + 2);
        for c in 0..l {
            for v in 0..5 {
                let mut d = 0;
                for (e, ed) in edges.iter().enumerate() {
                    if ed.0 == v { d += sig[e][c]; }
                    if ed.1 == v { d -= sig[e][c]; }
                }
                assert_eq!(d, 0);
            }
        }
    }
}
