//! Input-generation helpers: a cycle basis (signature matrix) for a multigraph, random accepted
//! graphs, the catalogue.  These produce INPUTS only; every expectation comes from the TLA+ side.

/// Fundamental cycle basis of the multigraph; returns the E x L signature matrix.
/// Edge e is oriented edges[e].0 -> edges[e].1.
pub fn cycle_basis(edges: &[(usize, usize)]) -> Vec<Vec<isize>> {
    let ne = edges.len();
    let nv = edges.iter().map(|e| e.0.max(e.1)).max().map(|m| m + 1).unwrap_or(0);
    let mut parent: Vec<Option<(usize, usize)>> = vec![None; nv]; // (parent vertex, edge id)
    let mut seen = vec![false; nv];
    let mut in_tree = vec![false; ne];
    let mut depth = vec![0usize; nv];
    for root in 0..nv {
        if seen[root] || !edges.iter().any(|e| e.0 == root || e.1 == root) {
            continue;
        }
        seen[root] = true;
        let mut stack = vec![root];
        while let Some(v) = stack.pop() {
            for (i, e) in edges.iter().enumerate() {
                if in_tree[i] || e.0 == e.1 {
                    continue;
                }
                let w = if e.0 == v { e.1 } else if e.1 == v { e.0 } else { continue };
                if !seen[w] {
                    seen[w] = true;
                    in_tree[i] = true;
                    parent[w] = Some((v, i));
                    depth[w] = depth[v] + 1;
                    stack.push(w);
                }
            }
        }
    }
    let chords: Vec<usize> = (0..ne).filter(|&i| !in_tree[i]).collect();
    let mut sig = vec![vec![0isize; chords.len()]; ne];
    for (l, &c) in chords.iter().enumerate() {
        sig[c][l] = 1;
        // close the cycle: walk from head (edges[c].1) back to tail (edges[c].0) through the tree
        let (mut a, mut b) = (edges[c].1, edges[c].0);
        // flow goes a -> ... -> b ; climb both to the common ancestor
        while a != b {
            if depth[a] >= depth[b] {
                let (p, e) = parent[a].unwrap();
                // traversing a -> p along the direction of flow
                sig[e][l] += if edges[e].0 == a && edges[e].1 == p { 1 } else { -1 };
                a = p;
            } else {
                let (p, e) = parent[b].unwrap();
                // flow arrives at b from p: traversing p -> b
                sig[e][l] += if edges[e].0 == p && edges[e].1 == b { 1 } else { -1 };
                b = p;
            }
        }
    }
    sig
}

#[cfg(test)]
mod tests {
    use super::*;
    #[test]
    fn divergence_free() {
        let edges = vec![(0, 1), (1, 2), (2, 0), (0, 1), (2, 2), (3, 4), (4, 3)];
        let sig = cycle_basis(&edges);
        let l = sig[0].len();
        assert_eq!(l, 7 - 5 + 2);
        for c in 0..l {
            for v in 0..5 {
                let mut d = 0;
                for (e, ed) in edges.iter().enumerate() {
                    if ed.0 == v { d += sig[e][c]; }
                    if ed.1 == v { d -= sig[e][c]; }
                }
                assert_eq!(d, 0);
            }
        }
    }
}
