pub mod checks;
pub mod dynsampler;
pub mod inst;
pub mod tr;
