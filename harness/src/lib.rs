pub mod apicommon;
pub mod checks;
pub mod dynsampler;
pub mod graphs;
pub mod inst;
pub mod tr;
pub mod dd;
pub mod xf;
