//! Tracking scalar: an f64 that records, in a thread-local DAG, every arithmetic operation,
//! comparison, narrowing (`to_f64`) and widening (`from_f64` / `from_isize` / constants) the
//! code under test performs on it.  It implements momtrop's public `MomTropFloat` trait, so the
//! real `generate_sample_from_x_space_point::<Tr>` runs unchanged (observation point O4).

use momtrop::float::MomTropFloat;
use std::cell::RefCell;
use std::cmp::Ordering;
use std::ops::{Add, AddAssign, Div, Mul, MulAssign, Neg, Sub, SubAssign};

#[derive(Clone, Copy, Debug, PartialEq, Eq, Hash)]
pub enum Op {
    /// user leaf: kind (0 = x-space coordinate, 1 = mass, 2 = shift component, 3 = other), index
    Leaf(u8, u32),
    /// constant created through the trait (zero / one / PI / from_isize / from_f64)
    Const(ConstKind),
    Add,
    Sub,
    Mul,
    Div,
    Neg,
    Ln,
    Exp,
    Cos,
    Sin,
    Powf,
    Sqrt,
    Inv,
    Abs,
}

#[derive(Clone, Copy, Debug, PartialEq, Eq, Hash)]
pub enum ConstKind {
    Zero,
    One,
    Pi,
    FromIsize,
    FromF64,
}

#[derive(Clone, Copy, Debug)]
pub struct Node {
    pub op: Op,
    pub a: u32,
    pub b: u32,
    pub v: f64,
}

#[derive(Clone, Debug)]
pub enum Event {
    /// comparison a ? b (which trait method, result as Option<Ordering> code)
    Cmp { a: u32, b: u32, kind: &'static str, at: u32 },
    /// to_f64 on node
    Narrow { node: u32, at: u32 },
    /// from_f64 / from_isize: new const node
    Widen { node: u32, kind: ConstKind, at: u32 },
}

#[derive(Default)]
pub struct Dag {
    pub nodes: Vec<Node>,
    pub events: Vec<Event>,
}

thread_local! {
    pub static DAG: RefCell<Dag> = RefCell::new(Dag::default());
}

pub const NOARG: u32 = u32::MAX;

pub fn reset() {
    DAG.with(|d| {
        let mut d = d.borrow_mut();
        d.nodes.clear();
        d.events.clear();
    })
}

pub fn take() -> Dag {
    DAG.with(|d| std::mem::take(&mut *d.borrow_mut()))
}

fn push(op: Op, a: u32, b: u32, v: f64) -> Tr {
    DAG.with(|d| {
        let mut d = d.borrow_mut();
        let id = d.nodes.len() as u32;
        d.nodes.push(Node { op, a, b, v });
        Tr { v, id }
    })
}

fn now() -> u32 {
    DAG.with(|d| d.borrow().nodes.len() as u32)
}
fn event(e: Event) {
    DAG.with(|d| d.borrow_mut().events.push(e))
}

#[derive(Clone, Debug)]
pub struct Tr {
    pub v: f64,
    pub id: u32,
}

impl Tr {
    pub fn leaf(kind: u8, idx: u32, v: f64) -> Tr {
        push(Op::Leaf(kind, idx), NOARG, NOARG, v)
    }
    fn un(&self, op: Op, v: f64) -> Tr {
        push(op, self.id, NOARG, v)
    }
    fn bin(&self, o: &Tr, op: Op, v: f64) -> Tr {
        push(op, self.id, o.id, v)
    }
    fn konst(kind: ConstKind, v: f64) -> Tr {
        let t = push(Op::Const(kind), NOARG, NOARG, v);
        if matches!(kind, ConstKind::FromF64 | ConstKind::FromIsize) {
            event(Event::Widen { node: t.id, kind, at: t.id });
        }
        t
    }
}

impl PartialEq for Tr {
    fn eq(&self, o: &Tr) -> bool {
        event(Event::Cmp { a: self.id, b: o.id, kind: "eq", at: now() });
        self.v == o.v
    }
}
impl PartialOrd for Tr {
    fn partial_cmp(&self, o: &Tr) -> Option<Ordering> {
        event(Event::Cmp { a: self.id, b: o.id, kind: "cmp", at: now() });
        self.v.partial_cmp(&o.v)
    }
}

macro_rules! binop {
    ($tr:ident, $m:ident, $op:expr, $f:expr) => {
        impl $tr<Tr> for Tr {
            type Output = Tr;
            fn $m(self, o: Tr) -> Tr {
                self.bin(&o, $op, $f(self.v, o.v))
            }
        }
        impl<'b> $tr<&'b Tr> for Tr {
            type Output = Tr;
            fn $m(self, o: &'b Tr) -> Tr {
                self.bin(o, $op, $f(self.v, o.v))
            }
        }
        impl<'a> $tr<Tr> for &'a Tr {
            type Output = Tr;
            fn $m(self, o: Tr) -> Tr {
                self.bin(&o, $op, $f(self.v, o.v))
            }
        }
        impl<'a, 'b> $tr<&'b Tr> for &'a Tr {
            type Output = Tr;
            fn $m(self, o: &'b Tr) -> Tr {
                self.bin(o, $op, $f(self.v, o.v))
            }
        }
    };
}
binop!(Add, add, Op::Add, |a: f64, b: f64| a + b);
binop!(Sub, sub, Op::Sub, |a: f64, b: f64| a - b);
binop!(Mul, mul, Op::Mul, |a: f64, b: f64| a * b);
binop!(Div, div, Op::Div, |a: f64, b: f64| a / b);

impl Neg for Tr {
    type Output = Tr;
    fn neg(self) -> Tr {
        self.un(Op::Neg, -self.v)
    }
}
impl<'a> Neg for &'a Tr {
    type Output = Tr;
    fn neg(self) -> Tr {
        self.un(Op::Neg, -self.v)
    }
}
impl<'b> AddAssign<&'b Tr> for Tr {
    fn add_assign(&mut self, o: &'b Tr) {
        *self = self.bin(o, Op::Add, self.v + o.v)
    }
}
impl<'b> SubAssign<&'b Tr> for Tr {
    fn sub_assign(&mut self, o: &'b Tr) {
        *self = self.bin(o, Op::Sub, self.v - o.v)
    }
}
impl<'b> MulAssign<&'b Tr> for Tr {
    fn mul_assign(&mut self, o: &'b Tr) {
        *self = self.bin(o, Op::Mul, self.v * o.v)
    }
}

impl MomTropFloat for Tr {
    fn one(&self) -> Self {
        Tr::konst(ConstKind::One, 1.0)
    }
    fn zero(&self) -> Self {
        Tr::konst(ConstKind::Zero, 0.0)
    }
    #[allow(non_snake_case)]
    fn PI(&self) -> Self {
        Tr::konst(ConstKind::Pi, std::f64::consts::PI)
    }
    fn ln(&self) -> Self {
        self.un(Op::Ln, self.v.ln())
    }
    fn exp(&self) -> Self {
        self.un(Op::Exp, self.v.exp())
    }
    fn cos(&self) -> Self {
        self.un(Op::Cos, self.v.cos())
    }
    fn sin(&self) -> Self {
        self.un(Op::Sin, self.v.sin())
    }
    fn powf(&self, p: &Self) -> Self {
        self.bin(p, Op::Powf, self.v.powf(p.v))
    }
    fn sqrt(&self) -> Self {
        self.un(Op::Sqrt, self.v.sqrt())
    }
    fn inv(&self) -> Self {
        self.un(Op::Inv, 1.0 / self.v)
    }
    fn abs(&self) -> Self {
        self.un(Op::Abs, self.v.abs())
    }
    fn from_isize(&self, value: isize) -> Self {
        Tr::konst(ConstKind::FromIsize, value as f64)
    }
    fn from_f64(&self, value: f64) -> Self {
        Tr::konst(ConstKind::FromF64, value)
    }
    fn to_f64(&self) -> f64 {
        event(Event::Narrow { node: self.id, at: now() });
        self.v
    }
}

/// Leaf set of a node: bit i of `x` = x-space coordinate i; `other` = edge-data leaves
/// (mass e -> bit e, shift (e,i) -> bit 64 + e*8 + i  capped), `consts` = number of const leaves.
#[derive(Clone, Copy, Debug, Default, PartialEq, Eq)]
pub struct Leaves {
    pub x: u128,
    pub other: u128,
}

impl Leaves {
    pub fn union(self, o: Leaves) -> Leaves {
        Leaves { x: self.x | o.x, other: self.other | o.other }
    }
    pub fn xs(&self) -> Vec<u32> {
        (0..128).filter(|i| self.x >> i & 1 == 1).collect()
    }
}

impl Dag {
    /// leaf sets for all nodes (nodes are in topological order by construction)
    pub fn leaf_sets(&self) -> Vec<Leaves> {
        let mut out: Vec<Leaves> = Vec::with_capacity(self.nodes.len());
        for n in &self.nodes {
            let l = match n.op {
                Op::Leaf(0, i) => Leaves { x: 1u128 << (i.min(127)), other: 0 },
                Op::Leaf(_, i) => Leaves { x: 0, other: 1u128 << (i.min(127)) },
                Op::Const(_) => Leaves::default(),
                _ => {
                    let mut l = out[n.a as usize];
                    if n.b != NOARG {
                        l = l.union(out[n.b as usize]);
                    }
                    l
                }
            };
            out.push(l);
        }
        out
    }
    /// number of nodes that use node `id` as an argument + events that mention it
    pub fn used(&self) -> Vec<bool> {
        let mut u = vec![false; self.nodes.len()];
        for n in &self.nodes {
            if !matches!(n.op, Op::Leaf(..) | Op::Const(_)) {
                u[n.a as usize] = true;
                if n.b != NOARG {
                    u[n.b as usize] = true;
                }
            }
        }
        for e in &self.events {
            match e {
                Event::Cmp { a, b, .. } => {
                    u[*a as usize] = true;
                    u[*b as usize] = true;
                }
                Event::Narrow { node, .. } => u[*node as usize] = true,
                Event::Widen { .. } => {}
            }
        }
        u
    }
    /// structural term of a node as nested JSON (for VectorAlg checks); leaves as ["L",kind,idx]
    pub fn term(&self, id: u32) -> serde_json::Value {
        use serde_json::json;
        let n = &self.nodes[id as usize];
        match n.op {
            Op::Leaf(k, i) => json!(["L", k, i]),
            Op::Const(ConstKind::Zero) => json!(["Z"]),
            Op::Const(ConstKind::One) => json!(["One"]),
            Op::Const(ConstKind::Pi) => json!(["Pi"]),
            Op::Const(ConstKind::FromIsize) => json!(["I", n.v as i64]),
            Op::Const(ConstKind::FromF64) => json!(["F", format!("{:016x}", n.v.to_bits())]),
            op => {
                let name = format!("{:?}", op);
                if n.b == NOARG {
                    json!([name, self.term(n.a)])
                } else {
                    json!([name, self.term(n.a), self.term(n.b)])
                }
            }
        }
    }
}
