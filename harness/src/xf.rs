//! A scalar with f64 precision and an unbounded binary exponent: value = m * 2^e with m a double in [1, 2) (or 0 / inf /
//! NaN with e = 0).  It models a user type whose RANGE is wider than f64's.  Addition, multiplication, division and sqrt
//! round exactly like IEEE double arithmetic would on the (unrepresentable) value, because scaling by a power of two is exact:
//! for inputs scaled by 2^k the results of a computation that only uses these operations are the f64 results scaled by the
//! corresponding power, bit for bit.  That is what the harness checks for `decompose_for_tropical` (C15 / C16 for matrices
//! whose determinant lies outside 1e+-308).  The elementary functions fall back to f64 on the argument's f64 image (they are
//! not used by the matrix routine).

use momtrop::float::MomTropFloat;
use std::cmp::Ordering;
use std::ops::{Add, AddAssign, Div, Mul, MulAssign, Neg, Sub, SubAssign};

#[derive(Clone, Copy, Debug)]
pub struct Xf {
    pub m: f64,
    pub e: i64,
}

fn split(v: f64) -> (f64, i64) {
    // v = m * 2^k with m in [1,2) (sign kept); 0, inf, NaN pass with k = 0
    if v == 0.0 || !v.is_finite() { return (v, 0); }
    let bits = v.to_bits();
    let ex = ((bits >> 52) & 0x7ff) as i64;
    if ex == 0 {
        // subnormal: scale up first
        let (m, k) = split(v * 2f64.powi(200));
        return (m, k - 200);
    }
    let m = f64::from_bits((bits & !(0x7ffu64 << 52)) | (1023u64 << 52));
    (m, ex - 1023)
}
fn pow2(k: i64) -> f64 {
    // exact for -1022 <= k <= 1023
    f64::from_bits(((k + 1023) as u64) << 52)
}

impl Xf {
    pub const ZERO: Xf = Xf { m: 0.0, e: 0 };
    pub const ONE: Xf = Xf { m: 1.0, e: 0 };
    pub fn norm(m: f64, e: i64) -> Xf {
        let (mm, k) = split(m);
        if mm == 0.0 || !mm.is_finite() { Xf { m: mm, e: 0 } } else { Xf { m: mm, e: e + k } }
    }
    pub fn f(v: f64) -> Xf { Xf::norm(v, 0) }
    /// v * 2^k
    pub fn scaled(v: f64, k: i64) -> Xf { Xf::norm(v, k) }
    pub fn special(&self) -> bool { self.m == 0.0 || !self.m.is_finite() }
    /// the value is a normal double
    pub fn in_range(&self) -> bool { !self.special() && self.e >= -1022 && self.e <= 1023 }
    pub fn image(&self) -> f64 {
        // nearest f64 (inf / 0 outside the range); gradual underflow handled by two-step scaling
        if self.special() { return self.m; }
        if self.e > 1100 { return self.m * f64::INFINITY; }
        if self.e < -1200 { return self.m * 0.0; }
        if self.e >= -1022 && self.e <= 1023 { return self.m * pow2(self.e); }
        if self.e > 1023 { return self.m * pow2(1023) * pow2(self.e - 1023); }
        self.m * pow2(-1022) * pow2((self.e + 1022).max(-1022))
    }
    pub fn add_x(a: Xf, b: Xf) -> Xf {
        if a.special() || b.special() {
            if a.m == 0.0 { return b; }
            if b.m == 0.0 { return a; }
            return Xf { m: a.m + b.m, e: 0 };
        }
        let (hi, lo) = if a.e >= b.e { (a, b) } else { (b, a) };
        let d = hi.e - lo.e;
        if d > 60 { return hi; }
        Xf::norm(hi.m + lo.m * pow2(-d), hi.e)
    }
    pub fn mul_x(a: Xf, b: Xf) -> Xf {
        if a.special() || b.special() { return Xf { m: a.m * b.m, e: 0 }; }
        Xf::norm(a.m * b.m, a.e + b.e)
    }
    pub fn div_x(a: Xf, b: Xf) -> Xf {
        if a.special() || b.special() { return Xf { m: a.m / b.m, e: 0 }; }
        Xf::norm(a.m / b.m, a.e - b.e)
    }
    pub fn sqrt_x(self) -> Xf {
        if self.special() { return Xf { m: self.m.sqrt(), e: 0 }; }
        if self.m < 0.0 { return Xf { m: f64::NAN, e: 0 }; }
        if self.e.rem_euclid(2) == 0 { Xf::norm(self.m.sqrt(), self.e / 2) } else { Xf::norm((self.m * 2.0).sqrt(), (self.e - 1) / 2) }
    }
    pub fn neg_x(self) -> Xf { Xf { m: -self.m, e: self.e } }
}

impl PartialEq for Xf {
    fn eq(&self, o: &Xf) -> bool {
        if self.special() || o.special() { return self.m == o.m; }
        self.m == o.m && self.e == o.e
    }
}
impl PartialOrd for Xf {
    fn partial_cmp(&self, o: &Xf) -> Option<Ordering> {
        if self.m.is_nan() || o.m.is_nan() { return None; }
        if self.special() || o.special() {
            // compare signs / magnitudes through representatives
            let r = |x: &Xf| if x.m == 0.0 { 0.0 } else if x.m.is_infinite() { x.m } else { x.m.signum() };
            let (a, b) = (r(self), r(o));
            if a != b || self.special() && o.special() { return a.partial_cmp(&b); }
            // one is 0 and the other has the same representative: impossible (non-zero finite has signum +-1)
            return a.partial_cmp(&b);
        }
        let (sa, sb) = (self.m > 0.0, o.m > 0.0);
        if sa != sb { return Some(if sa { Ordering::Greater } else { Ordering::Less }); }
        let mag = match self.e.cmp(&o.e) { Ordering::Equal => self.m.abs().partial_cmp(&o.m.abs())?, x => x };
        Some(if sa { mag } else { mag.reverse() })
    }
}

macro_rules! xfop {
    ($tr:ident, $m:ident, $f:expr) => {
        impl $tr<Xf> for Xf { type Output = Xf; fn $m(self, o: Xf) -> Xf { $f(self, o) } }
        impl<'b> $tr<&'b Xf> for Xf { type Output = Xf; fn $m(self, o: &'b Xf) -> Xf { $f(self, *o) } }
        impl<'a> $tr<Xf> for &'a Xf { type Output = Xf; fn $m(self, o: Xf) -> Xf { $f(*self, o) } }
        impl<'a, 'b> $tr<&'b Xf> for &'a Xf { type Output = Xf; fn $m(self, o: &'b Xf) -> Xf { $f(*self, *o) } }
    };
}
xfop!(Add, add, Xf::add_x);
xfop!(Sub, sub, |a: Xf, b: Xf| Xf::add_x(a, b.neg_x()));
xfop!(Mul, mul, Xf::mul_x);
xfop!(Div, div, Xf::div_x);
impl Neg for Xf { type Output = Xf; fn neg(self) -> Xf { self.neg_x() } }
impl<'a> Neg for &'a Xf { type Output = Xf; fn neg(self) -> Xf { self.neg_x() } }
impl<'b> AddAssign<&'b Xf> for Xf { fn add_assign(&mut self, o: &'b Xf) { *self = Xf::add_x(*self, *o) } }
impl<'b> SubAssign<&'b Xf> for Xf { fn sub_assign(&mut self, o: &'b Xf) { *self = Xf::add_x(*self, o.neg_x()) } }
impl<'b> MulAssign<&'b Xf> for Xf { fn mul_assign(&mut self, o: &'b Xf) { *self = Xf::mul_x(*self, *o) } }

impl MomTropFloat for Xf {
    fn one(&self) -> Self { Xf::ONE }
    // inside the f64 range the elementary functions ARE the f64 functions (a run with moderate values is then bit-identical
    // to the f64 run); outside it they are evaluated from mantissa and exponent
    fn ln(&self) -> Self {
        if self.special() || self.in_range() { return Xf::f(self.image().ln()); }
        Xf::f(self.m.ln() + self.e as f64 * std::f64::consts::LN_2)
    }
    fn exp(&self) -> Self {
        let x = self.image();
        let direct = x.exp();
        if direct.is_nan() || (direct.is_normal()) || x == 0.0 { return Xf::f(direct); }
        let k = (x / std::f64::consts::LN_2).floor();
        if !k.is_finite() || k.abs() > 1e15 { return Xf::f(direct); }
        Xf::norm((x - k * std::f64::consts::LN_2).exp(), k as i64)
    }
    fn cos(&self) -> Self { Xf::f(self.image().cos()) }
    fn sin(&self) -> Self { Xf::f(self.image().sin()) }
    fn powf(&self, power: &Self) -> Self {
        if (self.special() || self.in_range()) && (power.special() || power.in_range()) {
            let direct = self.image().powf(power.image());
            if direct.is_nan() || direct.is_normal() || self.m == 0.0 || direct == 1.0 { return Xf::f(direct); }
        }
        if self.m == 0.0 { return Xf::f(0f64.powf(power.image())); }
        MomTropFloat::exp(&Xf::mul_x(*power, MomTropFloat::ln(self)))
    }
    fn sqrt(&self) -> Self { self.sqrt_x() }
    fn from_isize(&self, value: isize) -> Self { Xf::f(value as f64) }
    fn from_f64(&self, value: f64) -> Self { Xf::f(value) }
    fn inv(&self) -> Self { Xf::div_x(Xf::ONE, *self) }
    fn to_f64(&self) -> f64 { self.image() }
    fn zero(&self) -> Self { Xf::ZERO }
    fn abs(&self) -> Self { Xf { m: self.m.abs(), e: self.e } }
    #[allow(non_snake_case)]
    fn PI(&self) -> Self { Xf::f(std::f64::consts::PI) }
}

#[cfg(test)]
mod tests {
    use super::*;
    #[test]
    fn scaled_arithmetic_is_ieee_arithmetic() {
        let vals = [1.0, 3.0, 0.1, -7.25, 1e-3, 123456.789, -0.3333333333333333, 2.5e10];
        for &k in &[0i64, -400, 400, 1500, -3000] {
            for &a in &vals { for &b in &vals {
                let (xa, xb) = (Xf::scaled(a, k), Xf::scaled(b, k));
                assert_eq!(Xf::add_x(xa, xb), Xf::scaled(a + b, k), "add {} {} k={}", a, b, k);
                assert_eq!(Xf::mul_x(xa, xb), Xf::scaled(a * b, 2 * k));
                assert_eq!(Xf::div_x(xa, xb), Xf::scaled(a / b, 0));
                if a > 0.0 { assert_eq!(Xf::scaled(a, 2 * k).sqrt_x(), Xf::scaled(a.sqrt(), k)); }
                assert_eq!(xa.partial_cmp(&xb), a.partial_cmp(&b));
            } }
        }
        assert_eq!(Xf::scaled(1.5, -2000).image(), 0.0);
        assert_eq!(Xf::scaled(1.5, 2000).image(), f64::INFINITY);
        assert_eq!(Xf::f(5e-324).image(), 5e-324);
        assert_eq!(Xf::f(1e-310).image(), 1e-310);
    }
}
