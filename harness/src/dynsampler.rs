//! Dimension-erased access to momtrop's public API (`SampleGenerator<D>` for D = 1..=8),
//! logger capture (observation point O3), panic capture (O5).

use crate::dd::Dd;
use crate::xf::Xf;
use crate::tr::Tr;
use momtrop::float::MomTropFloat;
use momtrop::log::Logger;
use momtrop::vector::Vector;
use momtrop::{Edge, Graph, SampleGenerator, TropicalSampleResult, TropicalSamplingSettings};
use serde_json::Value;
use std::cell::RefCell;
use std::panic::{catch_unwind, AssertUnwindSafe};

/// Scalars the harness can feed to the generic API.
pub trait Sc: MomTropFloat + 'static {
    fn mk(kind: u8, idx: u32, v: f64) -> Self;
    fn val(&self) -> f64;
    fn nid(&self) -> u32;
}
impl Sc for f64 {
    fn mk(_: u8, _: u32, v: f64) -> f64 {
        v
    }
    fn val(&self) -> f64 {
        *self
    }
    fn nid(&self) -> u32 {
        u32::MAX
    }
}
impl Sc for Tr {
    fn mk(kind: u8, idx: u32, v: f64) -> Tr {
        Tr::leaf(kind, idx, v)
    }
    fn val(&self) -> f64 {
        self.v
    }
    fn nid(&self) -> u32 {
        self.id
    }
}

impl Sc for Dd {
    fn mk(_: u8, _: u32, v: f64) -> Dd {
        Dd::f(v)
    }
    fn val(&self) -> f64 {
        self.hi
    }
    fn nid(&self) -> u32 {
        u32::MAX
    }
}

impl Sc for Xf {
    fn mk(_: u8, _: u32, v: f64) -> Xf {
        Xf::f(v)
    }
    fn val(&self) -> f64 {
        self.image()
    }
    fn nid(&self) -> u32 {
        u32::MAX
    }
}

#[derive(Default)]
pub struct CapLogger {
    pub entries: RefCell<Vec<(String, Value)>>,
}
impl Logger for CapLogger {
    fn write<T: serde::Serialize>(&self, msg: &str, data: &T) {
        self.entries
            .borrow_mut()
            .push((msg.to_string(), serde_json::to_value(data).unwrap_or(Value::Null)));
    }
}

#[derive(Clone, Debug)]
pub struct Settings {
    pub stability: Option<f64>,
    pub debug: bool,
    pub meta: bool,
}
impl Settings {
    pub fn new(stability: Option<f64>, debug: bool, meta: bool) -> Self {
        Settings { stability, debug, meta }
    }
    pub fn to_momtrop(&self) -> TropicalSamplingSettings {
        TropicalSamplingSettings {
            matrix_stability_test: self.stability,
            print_debug_info: self.debug,
            return_metadata: self.meta,
        }
    }
}

/// D-erased sample observation; scalars kept as T so that Tr node ids survive.
#[derive(Clone, Debug)]
pub struct Obs<T> {
    pub loop_momenta: Vec<Vec<T>>,
    pub u_trop: T,
    pub v_trop: T,
    pub u: T,
    pub v: T,
    pub jacobian: T,
    pub meta: Option<MetaObs<T>>,
}
#[derive(Clone, Debug)]
pub struct MetaObs<T> {
    pub q_vectors: Vec<Vec<T>>,
    pub lambda: T,
    pub l_matrix: Vec<Vec<T>>,
    pub det: T,
    pub inverse: Vec<Vec<T>>,
    pub q_t: Vec<Vec<T>>,
    pub q_t_inv: Vec<Vec<T>>,
    pub u_vectors: Vec<Vec<T>>,
    pub shift: Vec<Vec<T>>,
}

#[derive(Clone, Debug, PartialEq)]
pub enum Outcome {
    Ok,
    ErrZeroDet,
    ErrUnstable,
    ErrGamma,
    Panic(String),
}
impl Outcome {
    pub fn name(&self) -> &'static str {
        match self {
            Outcome::Ok => "Ok",
            Outcome::ErrZeroDet => "ErrZeroDet",
            Outcome::ErrUnstable => "ErrUnstable",
            Outcome::ErrGamma => "ErrGamma",
            Outcome::Panic(_) => "Panic",
        }
    }
}

pub struct SampleOut<T> {
    pub outcome: Outcome,
    pub obs: Option<Obs<T>>,
    pub log: Vec<(String, Value)>,
}

pub fn mat_to_vv<T: MomTropFloat>(m: &momtrop::matrix::SquareMatrix<T>) -> Vec<Vec<T>> {
    let n = m.get_dim();
    (0..n).map(|i| (0..n).map(|j| m[(i, j)].clone()).collect()).collect()
}
fn vecs<T: MomTropFloat, const D: usize>(v: &[Vector<T, D>]) -> Vec<Vec<T>> {
    v.iter().map(|x| x.get_elements().to_vec()).collect()
}

fn erase<T: MomTropFloat, const D: usize>(r: TropicalSampleResult<T, D>) -> Obs<T> {
    Obs {
        loop_momenta: vecs(&r.loop_momenta),
        u_trop: r.u_trop,
        v_trop: r.v_trop,
        u: r.u,
        v: r.v,
        jacobian: r.jacobian,
        meta: r.metadata.map(|m| MetaObs {
            q_vectors: vecs(&m.q_vectors),
            lambda: m.lambda,
            l_matrix: mat_to_vv(&m.l_matrix),
            det: m.decompoisiton_result.determinant.clone(),
            inverse: mat_to_vv(&m.decompoisiton_result.inverse),
            q_t: mat_to_vv(&m.decompoisiton_result.q_transposed),
            q_t_inv: mat_to_vv(&m.decompoisiton_result.q_transposed_inverse),
            u_vectors: vecs(&m.u_vectors),
            shift: vecs(&m.shift),
        }),
    }
}

/// `SamplingError` lives in a private module of momtrop and cannot be named from outside; its
/// derived `Debug` text is the public observation ("MatrixError(ZeroDet)", "MatrixError(Unstable)",
/// "GammaError(GammaError)").
pub fn classify_err(dbg: &str) -> Outcome {
    if dbg.contains("ZeroDet") {
        Outcome::ErrZeroDet
    } else if dbg.contains("Unstable") {
        Outcome::ErrUnstable
    } else if dbg.contains("Gamma") {
        Outcome::ErrGamma
    } else {
        Outcome::Panic(format!("unclassified error {}", dbg))
    }
}

pub fn panic_msg(e: Box<dyn std::any::Any + Send>) -> String {
    if let Some(s) = e.downcast_ref::<&str>() {
        s.to_string()
    } else if let Some(s) = e.downcast_ref::<String>() {
        s.clone()
    } else {
        "panic".to_string()
    }
}

/// Install once: silence the default panic printer (panics of the code under test are data).
pub fn quiet_panics() {
    std::panic::set_hook(Box::new(|i| { if std::env::var("MT_PANIC_TRACE").is_ok() { eprintln!("{}", i); } }));
}

pub type EdgeData<T> = Vec<(Option<T>, Vec<T>)>;

pub trait DynSampler: Send + Sync {
    fn d(&self) -> usize;
    fn dim(&self) -> usize;
    fn dod(&self) -> f64;
    fn num_edges(&self) -> usize;
    fn weights(&self) -> Vec<f64>;
    fn smallest_dod(&self) -> Result<f64, String>;
    fn to_json(&self) -> Value;
    fn to_json_string(&self) -> String;
    fn from_json_value(&self, v: Value) -> Result<Box<dyn DynSampler>, String>;
    fn from_json_str(&self, s: &str) -> Result<Box<dyn DynSampler>, String>;
    fn clone_box(&self) -> Box<dyn DynSampler>;
    fn sample_f64(&self, x: &[f64], ed: &EdgeData<f64>, s: &Settings) -> SampleOut<f64>;
    fn sample_tr(&self, x: &[Tr], ed: &EdgeData<Tr>, s: &Settings) -> SampleOut<Tr>;
    /// the same call with the double-double scalar (a user-supplied higher-precision type)
    fn sample_dd(&self, x: &[Dd], ed: &EdgeData<Dd>, s: &Settings) -> SampleOut<Dd>;
    /// ... and with the wide-range scalar (f64 precision, unbounded exponent)
    fn sample_xf(&self, x: &[Xf], ed: &EdgeData<Xf>, s: &Settings) -> SampleOut<Xf>;
    /// generate_sample_from_rng with a counting rng; returns (out, draws made, the f64 draws)
    fn sample_rng(&self, ed: &EdgeData<f64>, s: &Settings, seed: u64) -> (SampleOut<f64>, usize, Vec<f64>, u64);
}

fn run_sample<T: Sc, const D: usize>(
    sg: &SampleGenerator<D>,
    x: &[T],
    ed: &EdgeData<T>,
    s: &Settings,
) -> SampleOut<T> {
    let logger = CapLogger::default();
    let settings = s.to_momtrop();
    let edge_data: Vec<(Option<T>, Vector<T, D>)> = ed
        .iter()
        .map(|(m, p)| (m.clone(), Vector::from_vec(p.clone())))
        .collect();
    let r = catch_unwind(AssertUnwindSafe(|| {
        sg.generate_sample_from_x_space_point(x, edge_data, &settings, &logger)
    }));
    let log = logger.entries.into_inner();
    match r {
        Ok(Ok(res)) => SampleOut { outcome: Outcome::Ok, obs: Some(erase(res)), log },
        Ok(Err(e)) => {
            let o = classify_err(&format!("{:?}", e));
            SampleOut { outcome: o, obs: None, log }
        }
        Err(p) => SampleOut { outcome: Outcome::Panic(panic_msg(p)), obs: None, log },
    }
}

/// rand 0.8 RNG wrapper counting the u64 draws
pub struct CountingRng<R: rand::RngCore> {
    pub inner: R,
    pub n_u64: usize,
    pub n_u32: usize,
    pub n_bytes: usize,
}
impl<R: rand::RngCore> rand::RngCore for CountingRng<R> {
    fn next_u32(&mut self) -> u32 {
        self.n_u32 += 1;
        self.inner.next_u32()
    }
    fn next_u64(&mut self) -> u64 {
        self.n_u64 += 1;
        self.inner.next_u64()
    }
    fn fill_bytes(&mut self, dest: &mut [u8]) {
        self.n_bytes += dest.len();
        self.inner.fill_bytes(dest)
    }
    fn try_fill_bytes(&mut self, dest: &mut [u8]) -> Result<(), rand::Error> {
        self.n_bytes += dest.len();
        self.inner.try_fill_bytes(dest)
    }
}

impl<const D: usize> DynSampler for SampleGenerator<D> {
    fn d(&self) -> usize {
        D
    }
    // a panic inside an accessor of the code under test is data, not a harness crash: it shows up as an
    // impossible value that no expectation matches
    fn dim(&self) -> usize {
        catch_unwind(AssertUnwindSafe(|| self.get_dimension())).unwrap_or(usize::MAX)
    }
    fn dod(&self) -> f64 {
        catch_unwind(AssertUnwindSafe(|| self.get_dod())).unwrap_or(f64::NAN)
    }
    fn num_edges(&self) -> usize {
        catch_unwind(AssertUnwindSafe(|| self.get_num_edges())).unwrap_or(usize::MAX)
    }
    fn weights(&self) -> Vec<f64> {
        catch_unwind(AssertUnwindSafe(|| self.iter_edge_weights().collect())).unwrap_or_default()
    }
    fn smallest_dod(&self) -> Result<f64, String> {
        catch_unwind(AssertUnwindSafe(|| self.get_smallest_dod())).map_err(panic_msg)
    }
    fn to_json(&self) -> Value {
        serde_json::to_value(self).unwrap()
    }
    fn to_json_string(&self) -> String {
        serde_json::to_string(self).unwrap()
    }
    fn from_json_value(&self, v: Value) -> Result<Box<dyn DynSampler>, String> {
        serde_json::from_value::<SampleGenerator<D>>(v)
            .map(|s| Box::new(s) as Box<dyn DynSampler>)
            .map_err(|e| e.to_string())
    }
    fn from_json_str(&self, s: &str) -> Result<Box<dyn DynSampler>, String> {
        serde_json::from_str::<SampleGenerator<D>>(s)
            .map(|s| Box::new(s) as Box<dyn DynSampler>)
            .map_err(|e| e.to_string())
    }
    fn clone_box(&self) -> Box<dyn DynSampler> {
        Box::new(self.clone())
    }
    fn sample_f64(&self, x: &[f64], ed: &EdgeData<f64>, s: &Settings) -> SampleOut<f64> {
        run_sample::<f64, D>(self, x, ed, s)
    }
    fn sample_tr(&self, x: &[Tr], ed: &EdgeData<Tr>, s: &Settings) -> SampleOut<Tr> {
        run_sample::<Tr, D>(self, x, ed, s)
    }
    fn sample_dd(&self, x: &[Dd], ed: &EdgeData<Dd>, s: &Settings) -> SampleOut<Dd> {
        run_sample::<Dd, D>(self, x, ed, s)
    }
    fn sample_xf(&self, x: &[Xf], ed: &EdgeData<Xf>, s: &Settings) -> SampleOut<Xf> {
        run_sample::<Xf, D>(self, x, ed, s)
    }
    fn sample_rng(&self, ed: &EdgeData<f64>, s: &Settings, seed: u64) -> (SampleOut<f64>, usize, Vec<f64>, u64) {
        use rand::{Rng, RngCore, SeedableRng};
        let logger = CapLogger::default();
        let settings = s.to_momtrop();
        let edge_data: Vec<(Option<f64>, Vector<f64, D>)> =
            ed.iter().map(|(m, p)| (*m, Vector::from_vec(p.clone()))).collect();
        let mut rng = CountingRng { inner: rand::rngs::StdRng::seed_from_u64(seed), n_u64: 0, n_u32: 0, n_bytes: 0 };
        let r = catch_unwind(AssertUnwindSafe(|| {
            self.generate_sample_from_rng(edge_data, &settings, &mut rng, &logger)
        }));
        let draws64 = rng.n_u64;
        let after = rng.inner.next_u64();
        // the same draws, reproduced independently
        let mut r2 = rand::rngs::StdRng::seed_from_u64(seed);
        let xs: Vec<f64> = (0..draws64).map(|_| r2.gen::<f64>()).collect();
        let log = logger.entries.into_inner();
        let out = match r {
            Ok(Ok(res)) => SampleOut { outcome: Outcome::Ok, obs: Some(erase(res)), log },
            Ok(Err(e)) => {
                let o = classify_err(&format!("{:?}", e));
                SampleOut { outcome: o, obs: None, log }
            }
            Err(p) => SampleOut { outcome: Outcome::Panic(panic_msg(p)), obs: None, log },
        };
        (out, draws64 + rng.n_u32 + rng.n_bytes, xs, after)
    }
}

pub struct GraphSpec {
    pub edges: Vec<(u8, u8)>,
    pub mass: Vec<bool>,
    pub weights: Vec<f64>,
    pub ext: Vec<u8>,
}
impl GraphSpec {
    pub fn to_graph(&self) -> Graph {
        Graph {
            edges: self
                .edges
                .iter()
                .zip(&self.mass)
                .zip(&self.weights)
                .map(|((&v, &m), &w)| Edge { vertices: v, is_massive: m, weight: w })
                .collect(),
            externals: self.ext.clone(),
        }
    }
}

pub enum BuildOut {
    Ok(Box<dyn DynSampler>),
    Err(String),
    Panic(String),
}
impl BuildOut {
    pub fn name(&self) -> &'static str {
        match self {
            BuildOut::Ok(_) => "Ok",
            BuildOut::Err(_) => "Err",
            BuildOut::Panic(_) => "Panic",
        }
    }
}

fn build_d<const D: usize>(g: Graph, sig: Vec<Vec<isize>>) -> BuildOut {
    match catch_unwind(AssertUnwindSafe(|| g.build_sampler::<D>(sig))) {
        Ok(Ok(s)) => BuildOut::Ok(Box::new(s)),
        Ok(Err(e)) => BuildOut::Err(e),
        Err(p) => BuildOut::Panic(panic_msg(p)),
    }
}

pub fn build(gs: &GraphSpec, sig: Vec<Vec<isize>>, d: usize) -> BuildOut {
    let g = gs.to_graph();
    match d {
        1 => build_d::<1>(g, sig),
        2 => build_d::<2>(g, sig),
        3 => build_d::<3>(g, sig),
        4 => build_d::<4>(g, sig),
        5 => build_d::<5>(g, sig),
        6 => build_d::<6>(g, sig),
        7 => build_d::<7>(g, sig),
        8 => build_d::<8>(g, sig),
        _ => panic!("harness: unsupported D {}", d),
    }
}
