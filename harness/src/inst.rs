//! Instances as printed by the TLA+ generators (REPLAY lines) or written by the harness' own
//! generators: parsing, vertex-label mapping, common helpers.

use crate::dynsampler::GraphSpec;
use rand::seq::SliceRandom;
use rand::{Rng, SeedableRng};
use serde_json::Value;

pub fn rng_for(seed: u64, salt: u64) -> rand::rngs::StdRng {
    rand::rngs::StdRng::seed_from_u64(seed.wrapping_mul(0x9E3779B97F4A7C15).wrapping_add(salt))
}

#[derive(Clone, Debug)]
pub struct InstGraph {
    pub edges: Vec<(usize, usize)>, // spec labels (1-based)
    pub mass: Vec<bool>,
    pub w: Vec<i64>,
    pub wd: i64,
    pub ext: Vec<usize>,
    pub d: usize,
    /// weights given directly as doubles (re-weighted instances); overrides w / wd
    pub wf: Option<Vec<f64>>,
}

pub fn as_i64(v: &Value) -> i64 {
    v.as_i64().unwrap_or_else(|| panic!("harness: integer expected, got {}", v))
}
pub fn as_usize(v: &Value) -> usize {
    as_i64(v) as usize
}
pub fn arr(v: &Value) -> &Vec<Value> {
    v.as_array().unwrap_or_else(|| panic!("harness: array expected, got {}", v))
}

impl InstGraph {
    pub fn parse(g: &Value) -> InstGraph {
        InstGraph {
            edges: arr(&g["edges"]).iter().map(|e| (as_usize(&e[0]), as_usize(&e[1]))).collect(),
            mass: arr(&g["mass"]).iter().map(|b| b.as_bool().unwrap()).collect(),
            w: arr(&g["w"]).iter().map(as_i64).collect(),
            wd: as_i64(&g["wd"]),
            ext: arr(&g["ext"]).iter().map(as_usize).collect(),
            d: as_usize(&g["D"]),
            wf: None,
        }
    }
    pub fn to_json(&self) -> Value {
        serde_json::json!({
            "edges": self.edges.iter().map(|e| vec![e.0, e.1]).collect::<Vec<_>>(),
            "mass": self.mass, "w": self.w, "wd": self.wd, "ext": self.ext, "D": self.d})
    }
    pub fn ne(&self) -> usize {
        self.edges.len()
    }
    pub fn weights(&self) -> Vec<f64> {
        if let Some(w) = &self.wf { return w.clone(); }
        self.w.iter().map(|&w| w as f64 / self.wd as f64).collect()
    }
    /// weights are exactly representable and all sums exact (wd a power of two)
    pub fn exact_weights(&self) -> bool {
        self.wf.is_none() && (self.wd as u64).is_power_of_two()
    }
    /// Map spec labels injectively to arbitrary u8 labels (identity-1 when `plain`).
    pub fn label_map(&self, rng: &mut impl Rng, plain: bool) -> Vec<u8> {
        let maxl = self.edges.iter().flat_map(|e| [e.0, e.1]).chain(self.ext.iter().copied()).max().unwrap_or(1);
        if plain {
            return (0..=maxl).map(|l| l.saturating_sub(1) as u8).collect();
        }
        let mut pool: Vec<u8> = (0..=255u8).collect();
        pool.shuffle(rng);
        // a quarter of the time: labels that differ in one high bit only (v, v^128, v^64, v^192, ...): bit-mask and
        // modular tricks on labels alias exactly these
        if rng.gen_bool(0.25) {
            let b = pool[0];
            let mut adv: Vec<u8> = [0u8, 128, 64, 192, 32, 160, 96, 224, 1, 129, 255, 127].iter().map(|m| b ^ m).collect();
            adv.dedup();
            let rest: Vec<u8> = pool.iter().copied().filter(|x| !adv.contains(x)).collect();
            pool = adv.into_iter().chain(rest).collect();
            let k = maxl.min(pool.len() - 1).max(1);
            pool[..=k].shuffle(rng);
        }
        // make the extreme labels likely
        if rng.gen_bool(0.5) {
            pool.retain(|&x| x != 0 && x != 255);
            pool.insert(0, 255);
            pool.insert(1, 0);
            let k = maxl.min(pool.len() - 1).max(1);
            pool[..=k].shuffle(rng);
        }
        let mut m = vec![0u8; maxl + 1];
        for l in 1..=maxl {
            m[l] = pool[l - 1];
        }
        m
    }
    pub fn to_spec(&self, map: &[u8], swap: &[bool]) -> GraphSpec {
        GraphSpec {
            edges: self
                .edges
                .iter()
                .enumerate()
                .map(|(i, e)| {
                    let (a, b) = (map[e.0], map[e.1]);
                    if swap.get(i).copied().unwrap_or(false) { (b, a) } else { (a, b) }
                })
                .collect(),
            mass: self.mass.clone(),
            weights: self.weights(),
            ext: self.ext.iter().map(|&v| map[v]).collect(),
        }
    }
    /// as `to_spec`, but the list of externals is given in random order and, sometimes, with a vertex listed
    /// twice (the externals are a SET in the specification; the API takes a Vec)
    pub fn to_spec_messy(&self, map: &[u8], swap: &[bool], rng: &mut impl Rng) -> GraphSpec {
        let mut gs = self.to_spec(map, swap);
        gs.ext.shuffle(rng);
        if !gs.ext.is_empty() && rng.gen_bool(0.25) {
            let d = gs.ext[rng.gen_range(0..gs.ext.len())];
            let pos = rng.gen_range(0..=gs.ext.len());
            gs.ext.insert(pos, d);
        }
        gs
    }
}

pub fn hexf(x: f64) -> String {
    format!("{:016x}", x.to_bits())
}
pub fn unhexf(s: &str) -> f64 {
    f64::from_bits(u64::from_str_radix(s, 16).expect("hex double"))
}
pub fn ulps(a: f64, b: f64) -> u64 {
    if a == b {
        return 0;
    }
    if a.is_nan() || b.is_nan() || (a < 0.0) != (b < 0.0) {
        return u64::MAX;
    }
    let (x, y) = (a.abs().to_bits(), b.abs().to_bits());
    x.max(y) - x.min(y)
}
pub fn rel_err(a: f64, b: f64) -> f64 {
    if a == b {
        0.0
    } else if !a.is_finite() || !b.is_finite() {
        f64::INFINITY
    } else {
        (a - b).abs() / b.abs().max(f64::MIN_POSITIVE)
    }
}

/// ln Gamma(x) for x > 0, Lanczos (g = 7, n = 9); independent of statrs. Trusted base of C04/C11.
pub fn ln_gamma(x: f64) -> f64 {
    const G: f64 = 7.0;
    const C: [f64; 9] = [
        0.999_999_999_999_809_9,
        676.520_368_121_885_1,
        -1_259.139_216_722_402_8,
        771.323_428_777_653_1,
        -176.615_029_162_140_6,
        12.507_343_278_686_905,
        -0.138_571_095_265_720_12,
        9.984_369_578_019_572e-6,
        1.505_632_735_149_311_6e-7,
    ];
    if x < 0.5 {
        // reflection
        (std::f64::consts::PI / (std::f64::consts::PI * x).sin()).ln() - ln_gamma(1.0 - x)
    } else {
        let x = x - 1.0;
        let mut a = C[0];
        let t = x + G + 0.5;
        for (i, c) in C.iter().enumerate().skip(1) {
            a += c / (x + i as f64);
        }
        0.5 * (2.0 * std::f64::consts::PI).ln() + (x + 0.5) * t.ln() - t + a.ln()
    }
}

/// Summary a runner hands back to the driver.
#[derive(Default, serde::Serialize)]
pub struct Summary {
    pub evaluations: u64,
    pub nontrivial: u64,
    pub violations: Vec<Value>,
    pub samples: Vec<Value>,
    pub counters: std::collections::BTreeMap<String, i64>,
    pub notes: Vec<String>,
    pub events: u64,
}
impl Summary {
    pub fn count(&mut self, k: &str) {
        *self.counters.entry(k.to_string()).or_insert(0) += 1;
    }
    pub fn add(&mut self, k: &str, n: i64) {
        *self.counters.entry(k.to_string()).or_insert(0) += n;
    }
    pub fn max(&mut self, k: &str, n: i64) {
        let e = self.counters.entry(k.to_string()).or_insert(i64::MIN);
        if n > *e {
            *e = n;
        }
    }
    pub fn violation(&mut self, property: &str, what: String, instance: Value, detail: Value) {
        // keep at most 25 replayable violations per property (the counter keeps the total)
        let key = format!("violations_{}", property);
        if self.counters.get(&key).copied().unwrap_or(0) < 25 {
            self.violations.push(serde_json::json!({"property": property, "what": what, "instance": instance, "detail": detail}));
        }
        self.count(&key);
    }
    pub fn sample(&mut self, v: Value) {
        if self.samples.len() < 3 {
            self.samples.push(v);
        }
    }
}
