//! A double-double scalar (about 31 significant digits) implementing `MomTropFloat`: the "user-supplied
//! higher-precision type" of C19.  Every relation the harness checks for f64 can be checked again with this type at a
//! tolerance ten orders of magnitude tighter; a detour through f64 anywhere but the Gamma draw then shows as an error of
//! 1e-17 where 1e-30 is expected.  Algorithms: Dekker / Knuth error-free transformations, QD-style exp / ln, Taylor
//! series with quadrant reduction for sin / cos.  Accuracy a few units of 2^-104 for the arithmetic, ~1e-30 relative for
//! the elementary functions on the arguments the sampler uses; the checks allow 1e-26 or more.

use momtrop::float::MomTropFloat;
use num::{BigInt, BigRational, Zero};
use std::cmp::Ordering;
use std::ops::{Add, AddAssign, Div, Mul, MulAssign, Neg, Sub, SubAssign};

#[derive(Clone, Copy, Debug)]
pub struct Dd {
    pub hi: f64,
    pub lo: f64,
}

#[inline]
fn two_sum(a: f64, b: f64) -> (f64, f64) {
    let s = a + b;
    let bb = s - a;
    (s, (a - (s - bb)) + (b - bb))
}
#[inline]
fn quick_two_sum(a: f64, b: f64) -> (f64, f64) {
    let s = a + b;
    (s, b - (s - a))
}
#[inline]
fn two_prod(a: f64, b: f64) -> (f64, f64) {
    let p = a * b;
    (p, a.mul_add(b, -p))
}

pub const DD_PI: Dd = Dd { hi: 3.141592653589793116e+00, lo: 1.224646799147353207e-16 };
pub const DD_2PI: Dd = Dd { hi: 6.283185307179586232e+00, lo: 2.449293598294706414e-16 };
pub const DD_PI2: Dd = Dd { hi: 1.570796326794896558e+00, lo: 6.123233995736766036e-17 };
pub const DD_LN2: Dd = Dd { hi: 6.931471805599452862e-01, lo: 2.319046813846299558e-17 };
pub const DD_EPS: f64 = 4.93038065763132e-32; // 2^-104

impl Dd {
    pub const ZERO: Dd = Dd { hi: 0.0, lo: 0.0 };
    pub const ONE: Dd = Dd { hi: 1.0, lo: 0.0 };
    pub fn new(hi: f64, lo: f64) -> Dd {
        if !hi.is_finite() { return Dd { hi, lo: 0.0 }; }
        let (s, e) = quick_two_sum(hi, lo);
        Dd { hi: s, lo: e }
    }
    pub fn f(v: f64) -> Dd {
        Dd { hi: v, lo: 0.0 }
    }
    /// hi + lo built from two doubles of any relative size
    pub fn sum2(a: f64, b: f64) -> Dd {
        let (s, e) = two_sum(a, b);
        Dd { hi: s, lo: if s.is_finite() { e } else { 0.0 } }
    }
    pub fn is_finite(&self) -> bool {
        self.hi.is_finite()
    }
    pub fn is_nan(&self) -> bool {
        self.hi.is_nan()
    }
    fn fix(hi: f64, lo: f64) -> Dd {
        if hi.is_finite() && lo.is_finite() { Dd { hi, lo } } else if hi.is_finite() { Dd { hi, lo: 0.0 } } else { Dd { hi, lo: 0.0 } }
    }
    pub fn add_dd(a: Dd, b: Dd) -> Dd {
        let (s1, s2) = two_sum(a.hi, b.hi);
        if !s1.is_finite() { return Dd { hi: a.hi + b.hi, lo: 0.0 }; }
        let (t1, t2) = two_sum(a.lo, b.lo);
        let s2 = s2 + t1;
        let (s1, s2) = quick_two_sum(s1, s2);
        let s2 = s2 + t2;
        let (h, l) = quick_two_sum(s1, s2);
        Dd::fix(h, l)
    }
    pub fn mul_dd(a: Dd, b: Dd) -> Dd {
        let (p1, p2) = two_prod(a.hi, b.hi);
        if !p1.is_finite() || p1 == 0.0 { return Dd { hi: a.hi * b.hi, lo: 0.0 }; }
        let p2 = p2 + (a.hi * b.lo + a.lo * b.hi);
        let (h, l) = quick_two_sum(p1, p2);
        Dd::fix(h, l)
    }
    pub fn div_dd(a: Dd, b: Dd) -> Dd {
        let q1 = a.hi / b.hi;
        if !q1.is_finite() || q1 == 0.0 || !b.hi.is_finite() { return Dd { hi: q1, lo: 0.0 }; }
        let r = Dd::add_dd(a, Dd::mul_dd(b, Dd::f(q1)).neg_dd());
        let q2 = r.hi / b.hi;
        let r = Dd::add_dd(r, Dd::mul_dd(b, Dd::f(q2)).neg_dd());
        let q3 = r.hi / b.hi;
        let (h, l) = quick_two_sum(q1, q2);
        Dd::add_dd(Dd::fix(h, l), Dd::f(q3))
    }
    pub fn neg_dd(self) -> Dd {
        Dd { hi: -self.hi, lo: -self.lo }
    }
    pub fn sqrt_dd(self) -> Dd {
        if self.hi == 0.0 { return Dd::ZERO; }
        if self.hi < 0.0 || self.hi.is_nan() { return Dd::f(f64::NAN); }
        if self.hi.is_infinite() { return Dd::f(f64::INFINITY); }
        // Karp's trick, then one Newton step in double-double
        let x = 1.0 / self.hi.sqrt();
        let ax = self.hi * x;
        let d = Dd::add_dd(self, Dd::mul_dd(Dd::f(ax), Dd::f(ax)).neg_dd());
        let r = Dd::sum2(ax, d.hi * (x * 0.5));
        // Newton: r <- (r + a / r) / 2
        let q = Dd::div_dd(self, r);
        let s = Dd::add_dd(r, q);
        Dd { hi: s.hi * 0.5, lo: s.lo * 0.5 }
    }
    pub fn mul_pwr2(self, p: f64) -> Dd {
        Dd::fix(self.hi * p, self.lo * p)
    }
    pub fn exp_dd(self) -> Dd {
        let x = self;
        if x.hi.is_nan() { return x; }
        if x.hi <= -745.2 { return Dd::ZERO; }
        if x.hi >= 709.79 { return Dd::f(f64::INFINITY); }
        if x.hi == 0.0 { return Dd::ONE; }
        const K: f64 = 512.0;
        let m = (x.hi / DD_LN2.hi + 0.5).floor();
        let r = Dd::add_dd(x, Dd::mul_dd(DD_LN2, Dd::f(m)).neg_dd()).mul_pwr2(1.0 / K);
        // expm1(r) by Taylor
        let mut p = Dd::mul_dd(r, r);
        let mut s = Dd::add_dd(r, p.mul_pwr2(0.5));
        p = Dd::mul_dd(p, r);
        let mut fact = 6.0f64;
        let mut t = Dd::div_dd(p, Dd::f(fact));
        let mut i = 3.0;
        loop {
            s = Dd::add_dd(s, t);
            if t.hi.abs() <= 1e-36 * s.hi.abs().max(1e-300) || i > 30.0 { break; }
            p = Dd::mul_dd(p, r);
            i += 1.0;
            fact *= i;
            t = Dd::div_dd(p, Dd::f(fact));
        }
        // undo the scaling: (1+s)^512 - 1 by nine squarings  s <- 2s + s^2
        for _ in 0..9 {
            s = Dd::add_dd(s.mul_pwr2(2.0), Dd::mul_dd(s, s));
        }
        let s = Dd::add_dd(s, Dd::ONE);
        // multiply by 2^m in two steps (m may be as large as +-1074)
        let h = (m / 2.0).trunc();
        let r = s.mul_pwr2(2f64.powi(h as i32));
        r.mul_pwr2(2f64.powi((m - h) as i32))
    }
    pub fn ln_dd(self) -> Dd {
        if self.hi.is_nan() || self.hi < 0.0 { return Dd::f(f64::NAN); }
        if self.hi == 0.0 { return Dd::f(f64::NEG_INFINITY); }
        if self.hi.is_infinite() { return self; }
        if self.hi == 1.0 && self.lo == 0.0 { return Dd::ZERO; }
        // split off the binary exponent (keeps the Newton step away from the subnormal range): a = m 2^k, m in [1/2, 2)
        let k = self.hi.log2().round();
        let h = (k / 2.0).trunc();
        let m = self.mul_pwr2(2f64.powi(-(h as i32))).mul_pwr2(2f64.powi(-((k - h) as i32)));
        // Newton on exp: x <- x + m exp(-x) - 1
        let mut x = Dd::f(m.hi.ln());
        for _ in 0..2 {
            let e = x.neg_dd().exp_dd();
            x = Dd::add_dd(Dd::add_dd(x, Dd::mul_dd(m, e)), Dd::ONE.neg_dd());
        }
        Dd::add_dd(x, Dd::mul_dd(DD_LN2, Dd::f(k)))
    }
    fn sincos_taylor(t: Dd) -> (Dd, Dd) {
        // |t| <= pi/4 (+ a little)
        let t2 = Dd::mul_dd(t, t).neg_dd();
        let (mut s, mut c) = (t, Dd::ONE);
        let (mut ps, mut pc) = (t, Dd::ONE);
        let mut k = 1.0;
        for _ in 0..16 {
            // cos term: multiply by -t^2 / ((2k-1)(2k)); sin term: -t^2 / ((2k)(2k+1))
            pc = Dd::div_dd(Dd::mul_dd(pc, t2), Dd::f((2.0 * k - 1.0) * (2.0 * k)));
            ps = Dd::div_dd(Dd::mul_dd(ps, t2), Dd::f((2.0 * k) * (2.0 * k + 1.0)));
            c = Dd::add_dd(c, pc);
            s = Dd::add_dd(s, ps);
            k += 1.0;
        }
        (s, c)
    }
    pub fn sin_cos_dd(self) -> (Dd, Dd) {
        if !self.hi.is_finite() { return (Dd::f(f64::NAN), Dd::f(f64::NAN)); }
        // reduce modulo 2 pi, then to a quadrant
        let k = (self.hi / DD_2PI.hi).round();
        let r = Dd::add_dd(self, Dd::mul_dd(DD_2PI, Dd::f(k)).neg_dd());
        let j = (r.hi / DD_PI2.hi).round();
        let t = Dd::add_dd(r, Dd::mul_dd(DD_PI2, Dd::f(j)).neg_dd());
        let (s, c) = Dd::sincos_taylor(t);
        match (j as i64).rem_euclid(4) {
            0 => (s, c),
            1 => (c, s.neg_dd()),
            2 => (s.neg_dd(), c.neg_dd()),
            _ => (c.neg_dd(), s),
        }
    }
    pub fn powf_dd(self, p: Dd) -> Dd {
        if p.hi == 0.0 { return Dd::ONE; }
        if self.hi == 0.0 { return if p.hi > 0.0 { Dd::ZERO } else { Dd::f(f64::INFINITY) }; }
        if self.hi == 1.0 && self.lo == 0.0 { return Dd::ONE; }
        Dd::mul_dd(p, self.ln_dd()).exp_dd()
    }
    pub fn abs_dd(self) -> Dd {
        if self.hi < 0.0 || (self.hi == 0.0 && self.lo < 0.0) { self.neg_dd() } else { self }
    }
    /// exact rational value (None when not finite)
    pub fn to_rational(&self) -> Option<BigRational> {
        if !self.hi.is_finite() || !self.lo.is_finite() { return None; }
        Some(BigRational::from_float(self.hi)? + BigRational::from_float(self.lo)?)
    }
    /// nearest double-double to a rational (for comparisons: two roundings, error <= 2^-105 relative)
    pub fn from_rational(r: &BigRational) -> Dd {
        if r.is_zero() { return Dd::ZERO; }
        let hi = rat_to_f64(r);
        if !hi.is_finite() { return Dd::f(hi); }
        let rest = r - BigRational::from_float(hi).unwrap();
        Dd::new(hi, rat_to_f64(&rest))
    }
}

pub fn rat_to_f64(r: &BigRational) -> f64 {
    // scale so that the integer quotient has ~64 significant bits
    if r.is_zero() { return 0.0; }
    let (n, d) = (r.numer().clone(), r.denom().clone());
    let shift = d.bits() as i64 - n.bits() as i64 + 80;
    let q: BigInt = if shift >= 0 { (n << shift as usize) / d } else { n / (d << (-shift) as usize) };
    let (sign, digits) = q.to_u64_digits();
    // take the top 64+ bits as f64
    let mut v = 0.0f64;
    for dg in digits.iter().rev() { v = v * 18446744073709551616.0 + *dg as f64; }
    let v = if sign == num::bigint::Sign::Minus { -v } else { v };
    // v * 2^-shift in steps that stay in range
    let mut e = -shift;
    let mut out = v;
    while e > 900 { out *= 2f64.powi(900); e -= 900; }
    while e < -900 { out *= 2f64.powi(-900); e += 900; }
    out * 2f64.powi(e as i32)
}

impl PartialEq for Dd {
    fn eq(&self, o: &Dd) -> bool {
        self.hi == o.hi && (self.lo == o.lo || !self.hi.is_finite())
    }
}
impl PartialOrd for Dd {
    fn partial_cmp(&self, o: &Dd) -> Option<Ordering> {
        match self.hi.partial_cmp(&o.hi) {
            Some(Ordering::Equal) => if self.hi.is_finite() { self.lo.partial_cmp(&o.lo) } else { Some(Ordering::Equal) },
            x => x,
        }
    }
}

macro_rules! ddop {
    ($tr:ident, $m:ident, $f:expr) => {
        impl $tr<Dd> for Dd { type Output = Dd; fn $m(self, o: Dd) -> Dd { $f(self, o) } }
        impl<'b> $tr<&'b Dd> for Dd { type Output = Dd; fn $m(self, o: &'b Dd) -> Dd { $f(self, *o) } }
        impl<'a> $tr<Dd> for &'a Dd { type Output = Dd; fn $m(self, o: Dd) -> Dd { $f(*self, o) } }
        impl<'a, 'b> $tr<&'b Dd> for &'a Dd { type Output = Dd; fn $m(self, o: &'b Dd) -> Dd { $f(*self, *o) } }
    };
}
ddop!(Add, add, Dd::add_dd);
ddop!(Sub, sub, |a: Dd, b: Dd| Dd::add_dd(a, b.neg_dd()));
ddop!(Mul, mul, Dd::mul_dd);
ddop!(Div, div, Dd::div_dd);
impl Neg for Dd { type Output = Dd; fn neg(self) -> Dd { self.neg_dd() } }
impl<'a> Neg for &'a Dd { type Output = Dd; fn neg(self) -> Dd { self.neg_dd() } }
impl<'b> AddAssign<&'b Dd> for Dd { fn add_assign(&mut self, o: &'b Dd) { *self = Dd::add_dd(*self, *o) } }
impl<'b> SubAssign<&'b Dd> for Dd { fn sub_assign(&mut self, o: &'b Dd) { *self = Dd::add_dd(*self, o.neg_dd()) } }
impl<'b> MulAssign<&'b Dd> for Dd { fn mul_assign(&mut self, o: &'b Dd) { *self = Dd::mul_dd(*self, *o) } }

thread_local! {
    /// number of `to_f64` calls made on this thread (C19: only the Gamma draw narrows)
    pub static NARROWS: std::cell::Cell<u64> = const { std::cell::Cell::new(0) };
}

impl MomTropFloat for Dd {
    fn one(&self) -> Self { Dd::ONE }
    fn ln(&self) -> Self { self.ln_dd() }
    fn exp(&self) -> Self { self.exp_dd() }
    fn cos(&self) -> Self { self.sin_cos_dd().1 }
    fn sin(&self) -> Self { self.sin_cos_dd().0 }
    fn powf(&self, power: &Self) -> Self { self.powf_dd(*power) }
    fn sqrt(&self) -> Self { self.sqrt_dd() }
    fn from_isize(&self, value: isize) -> Self {
        let hi = value as f64;
        let lo = (value as i128 - hi as i128) as f64;
        Dd::new(hi, lo)
    }
    fn from_f64(&self, value: f64) -> Self { Dd::f(value) }
    fn inv(&self) -> Self { Dd::div_dd(Dd::ONE, *self) }
    fn to_f64(&self) -> f64 {
        NARROWS.with(|c| c.set(c.get() + 1));
        self.hi
    }
    fn zero(&self) -> Self { Dd::ZERO }
    fn abs(&self) -> Self { self.abs_dd() }
    #[allow(non_snake_case)]
    fn PI(&self) -> Self { DD_PI }
}

#[cfg(test)]
mod tests {
    use super::*;
    fn rel(a: Dd, b: Dd) -> f64 {
        let d = Dd::add_dd(a, b.neg_dd());
        (d.hi / b.hi).abs()
    }
    #[test]
    fn arithmetic_against_rationals() {
        let a = Dd::new(1.0 / 3.0, 1.0e-18);
        let b = Dd::new(7.25, -3.0e-17);
        let (ra, rb) = (a.to_rational().unwrap(), b.to_rational().unwrap());
        assert!(rel(Dd::add_dd(a, b), Dd::from_rational(&(&ra + &rb))) < 1e-31);
        assert!(rel(Dd::mul_dd(a, b), Dd::from_rational(&(&ra * &rb))) < 1e-31);
        assert!(rel(Dd::div_dd(a, b), Dd::from_rational(&(&ra / &rb))) < 1e-31);
        let s = b.sqrt_dd();
        assert!(rel(Dd::mul_dd(s, s), b) < 1e-31);
    }
    #[test]
    fn elementary_functions() {
        // exp(ln x) = x, exp(1) known, sin^2+cos^2 = 1, sin(pi/6) = 1/2
        for &v in &[1e-300, 1e-10, 0.1, 0.5, 0.999999, 1.0000001, 2.0, 17.3, 1e10, 1e300] {
            let x = Dd::new(v, v * 1e-17);
            assert!(rel(x.ln_dd().exp_dd(), x) < 1e-28, "exp(ln {:e}) rel {:e} ln={:?}", v, rel(x.ln_dd().exp_dd(), x), x.ln_dd());
        }
        let e = Dd::ONE.exp_dd();
        let e_ref = Dd { hi: 2.718281828459045091e+00, lo: 1.445646891729250158e-16 };
        assert!(rel(e, e_ref) < 1e-31);
        for &v in &[0.0, 0.1, 0.7, 1.5, 3.0, 4.5, 6.2, -2.0] {
            let (s, c) = Dd::f(v).sin_cos_dd();
            let one = Dd::add_dd(Dd::mul_dd(s, s), Dd::mul_dd(c, c));
            assert!(rel(one, Dd::ONE) < 1e-31);
            assert!((s.hi - v.sin()).abs() < 1e-15 && (c.hi - v.cos()).abs() < 1e-15);
        }
        let (s, _) = Dd::div_dd(DD_PI, Dd::f(6.0)).sin_cos_dd();
        assert!(rel(s, Dd::f(0.5)) < 1e-31);
        let p = Dd::f(2.0).powf_dd(Dd::f(0.5));
        assert!(rel(Dd::mul_dd(p, p), Dd::f(2.0)) < 1e-30);
        assert!(rel(Dd::f(10.0).ln_dd(), Dd { hi: 2.302585092994045901e+00, lo: -2.170756223382249351e-16 }) < 1e-31);
    }
}
