//! Shared by the harness (momtrop built with `log`) and harness_nolog (momtrop built without it):
//! origins (graph + D + signature + edge data) from Gen_Routing lines, deterministic arguments, digests.
use rand::{Rng, SeedableRng};
use serde_json::Value;

#[derive(Clone, Debug)]
pub struct Origin {
    pub edges: Vec<(u8, u8)>,
    pub mass: Vec<bool>,
    pub weights: Vec<f64>,
    pub ext: Vec<u8>,
    pub d: usize,
    pub sig: Vec<Vec<isize>>,
    pub m: Vec<f64>,
    pub p: Vec<Vec<f64>>,
    pub key: String,
}

/// Fundamental cycle basis of the multigraph; returns the E x L signature matrix.
/// Edge e is oriented edges[e].0 -> edges[e].1.
pub fn cycle_basis(edges: &[(usize, usize)]) -> Vec<Vec<isize>> {
    let ne = edges.len();
    let nv = edges.iter().map(|e| e.0.max(e.1)).max().map(|m| m + 1).unwrap_or(0);
    let mut parent: Vec<Option<(usize, usize)>> = vec![None; nv]; // (parent vertex, edge id)
    let mut seen = vec![false; nv];
    let mut in_tree = vec![false; ne];
    let mut depth = vec![0usize; nv];
    for root in 0..nv {
        if seen[root] || !edges.iter().any(|e| e.0 == root || e.1 == root) {
            continue;
        }
        seen[root] = true;
        let mut stack = vec![root];
        while let Some(v) = stack.pop() {
            for (i, e) in edges.iter().enumerate() {
                if in_tree[i] || e.0 == e.1 {
                    continue;
                }
                let w = if e.0 == v { e.1 } else if e.1 == v { e.0 } else { continue };
                if !seen[w] {
                    seen[w] = true;
                    in_tree[i] = true;
                    parent[w] = Some((v, i));
                    depth[w] = depth[v] + 1;
                    stack.push(w);
                }
            }
        }
    }
    let chords: Vec<usize> = (0..ne).filter(|&i| !in_tree[i]).collect();
    let mut sig = vec![vec![0isize; chords.len()]; ne];
    for (l, &c) in chords.iter().enumerate() {
        sig[c][l] = 1;
        // close the cycle: walk from head (edges[c].1) back to tail (edges[c].0) through the tree
        let (mut a, mut b) = (edges[c].1, edges[c].0);
        // flow goes a -> ... -> b ; climb both to the common ancestor
        while a != b {
            if depth[a] >= depth[b] {
                let (p, e) = parent[a].unwrap();
                // traversing a -> p along the direction of flow
                sig[e][l] += if edges[e].0 == a && edges[e].1 == p { 1 } else { -1 };
                a = p;
            } else {
                let (p, e) = parent[b].unwrap();
                // flow arrives at b from p: traversing p -> b
                sig[e][l] += if edges[e].0 == p && edges[e].1 == b { 1 } else { -1 };
                b = p;
            }
        }
    }
    sig
}


fn ai(v: &Value) -> i64 { v.as_i64().expect("int") }

/// origins plus near-twins: the first three graphs again with one weight 4e-9 larger (degrees of divergence
/// closer than 1e-8): results must depend on the origin actually used, however close another one is
pub fn origins_with_twins(lines: &[Value], max: usize) -> Vec<Origin> {
    let mut origins = origins_from_lines(lines, max);
    let twins: Vec<Origin> = origins.iter().take(3).map(|o| { let mut t = o.clone(); t.weights[0] += 4e-9; t.key = format!("{}~twin", o.key); t }).collect();
    let mut k = 1;
    for t in twins { origins.insert(k.min(origins.len()), t); k += 2; }
    // wild-weight variants (numerical range: table entries of order 1e20 and 1e-20): kept by the callers only if the
    // sampler builds - for the API properties ANY sampler that exists is a legitimate object
    let n0 = origins.len().min(6);
    for i in 0..n0 {
        for (tag, small, big) in [("~tiny", 1e-10, 1.0), ("~huge", 1.0, 1e6)] {
            let o = origins[i].clone();
            if o.key.contains('~') || o.weights.len() < 2 { continue; }
            let mut t = o.clone();
            for (e, w) in t.weights.iter_mut().enumerate() { *w = if (e + i) % 2 == 0 { small } else { big }; }
            t.key = format!("{}{}", o.key, tag);
            origins.push(t);
        }
    }
    // decimal variant: weights 0.3 k - partial sums of such weights land one ulp away from other table values
    for i in 0..origins.len().min(8) {
        let o = origins[i].clone();
        if o.key.contains('~') || o.edges.len() < 2 { continue; }
        let mut t = o.clone();
        for (e, w) in t.weights.iter_mut().enumerate() { *w = 0.3 * (1 + (e * 7 + i) % 6) as f64 + if t.d > 2 { 0.3 * (t.d as f64) } else { 0.0 }; }
        t.key = format!("{}~decimal", o.key);
        origins.push(t);
        // ... and the plain ladder 0.3, 0.6, 0.9, ... (kept only when the sampler builds)
        for shift in 0..2 {
            let mut t2 = o.clone();
            for (e, w) in t2.weights.iter_mut().enumerate() { *w = 0.3 * (1 + (e + shift) % 4) as f64; }
            t2.key = format!("{}~ladder{}", o.key, shift);
            origins.push(t2);
        }
    }
    // fixed one-loop polygons with the decimal ladder 0.3, 0.6, 0.9, ... (partial sums one ulp apart, e.g. 0.3 + 0.6)
    for n in 3..=5usize {
        for d in [3usize, 2] {
            let w: Vec<f64> = (0..n).map(|e| 0.3 * (1 + e) as f64).collect();
            origins.push(Origin {
                edges: (0..n).map(|e| (e as u8, ((e + 1) % n) as u8)).collect(), mass: vec![false; n], weights: w,
                ext: (0..n as u8).collect(), d, sig: vec![vec![1]; n], m: vec![0.0; n],
                p: (0..n).map(|e| (0..d).map(|c| ((e + c) % 3) as f64).collect()).collect(),
                key: format!("polygon{}d{}~ladder", n, d) });
        }
    }
    // forest variant: the edges of a spanning forest get weight 1e-10 (they close no loop, so the graph can stay
    // convergent), the chords a weight above D/2: J values of order (1e10)^(number of forest edges)
    for i in 0..origins.len().min(10) {
        let o = origins[i].clone();
        if o.key.contains('~') || o.edges.len() < 3 { continue; }
        let mut parent: Vec<usize> = (0..256).collect();
        fn find(p: &mut Vec<usize>, x: usize) -> usize { let mut r = x; while p[r] != r { r = p[r]; } p[x] = r; r }
        let mut t = o.clone();
        let mut nforest = 0;
        for (e, &(a, b)) in o.edges.iter().enumerate() {
            let (ra, rb) = (find(&mut parent, a as usize), find(&mut parent, b as usize));
            if ra != rb { parent[ra] = rb; t.weights[e] = 1e-10; nforest += 1; } else { t.weights[e] = o.d as f64 / 2.0 + 1.0; }
        }
        if nforest >= 2 { t.key = format!("{}~forest", o.key); origins.push(t); }
    }
    origins
}

pub fn origins_from_lines(lines: &[Value], max: usize) -> Vec<Origin> {
    let mut out = vec![];
    // spread the selection over the whole file (different topologies, loop numbers, D): every k-th line first
    // (the first max/2 lines are always taken: the driver puts the special graphs - disconnected ones - there)
    let k = (2 * lines.len() / max.max(1)).max(1);
    let spread = lines.iter().take(max / 2).chain(lines.iter().skip(max / 2).step_by(k)).chain(lines.iter());
    for l in spread {
        let g = &l["g"];
        let wd = ai(&g["wd"]) as f64;
        if l.get("routings").is_none() {
            // a Gen_Table line (possibly disconnected graph): accepted, at least one loop, positive dod
            if l["div"].as_bool().unwrap_or(true) || ai(&l["L"]) < 1 || ai(&l["dod"]) <= 0 { continue; }
            let edges_raw: Vec<(usize, usize)> = g["edges"].as_array().unwrap().iter().map(|e| (ai(&e[0]) as usize, ai(&e[1]) as usize)).collect();
            let d = ai(&g["D"]) as usize;
            let mass: Vec<bool> = g["mass"].as_array().unwrap().iter().map(|b| b.as_bool().unwrap()).collect();
            let o = Origin {
                edges: edges_raw.iter().map(|e| ((e.0 * 37 % 251) as u8, (e.1 * 37 % 251) as u8)).collect(),
                m: mass.iter().map(|&b| if b { 1.0 } else { 0.0 }).collect(),
                mass,
                weights: g["w"].as_array().unwrap().iter().map(|w| ai(w) as f64 / wd).collect(),
                ext: g["ext"].as_array().unwrap().iter().map(|v| (ai(v) * 37 % 251) as u8).collect(),
                d,
                sig: cycle_basis(&edges_raw),
                p: (0..edges_raw.len()).map(|e| (0..d).map(|c| ((e + 2 * c) % 3) as f64 - 1.0).collect()).collect(),
                key: format!("{}#t", g),
            };
            if !out.iter().any(|x: &Origin| x.key == o.key) { out.push(o); }
            if out.len() >= max { return out; }
            continue;
        }
        for (ri, r) in l["routings"].as_array().unwrap().iter().enumerate().take(2) {
            let o = Origin {
                edges: g["edges"].as_array().unwrap().iter().map(|e| ((ai(&e[0]) * 37 % 251) as u8, (ai(&e[1]) * 37 % 251) as u8)).collect(),
                mass: g["mass"].as_array().unwrap().iter().map(|b| b.as_bool().unwrap()).collect(),
                weights: g["w"].as_array().unwrap().iter().map(|w| ai(w) as f64 / wd).collect(),
                ext: g["ext"].as_array().unwrap().iter().map(|v| (ai(v) * 37 % 251) as u8).collect(),
                d: ai(&g["D"]) as usize,
                sig: r["sig"].as_array().unwrap().iter().map(|row| row.as_array().unwrap().iter().map(|x| ai(x) as isize).collect()).collect(),
                m: l["m"].as_array().unwrap().iter().map(|x| ai(x) as f64).collect(),
                p: r["p"].as_array().unwrap().iter().map(|row| row.as_array().unwrap().iter().map(|x| ai(x) as f64).collect()).collect(),
                key: format!("{}#{}", g, ri),
            };
            if !out.iter().any(|x: &Origin| x.key == o.key) { out.push(o); }
            if out.len() >= max { return out; }
        }
    }
    out
}

/// argument number `a` for an origin of hypercube dimension `dim`: (x-space point, stability setting, rng seed)
/// even `a`: the point IS the sequence rng.gen::<f64>() of StdRng(seed) (so it can also be produced by
/// generate_sample_from_rng); odd `a`: corner-heavy point.
pub fn arg_for(okey: &str, dim: usize, a: usize) -> (Vec<f64>, Option<f64>, u64) {
    let mut h: u64 = 0xcbf29ce484222325;
    for b in okey.bytes() { h ^= b as u64; h = h.wrapping_mul(0x100000001b3); }
    let seed = h ^ (a as u64).wrapping_mul(0x9E3779B97F4A7C15);
    let mut rng = rand::rngs::StdRng::seed_from_u64(seed);
    let x: Vec<f64> = if a % 2 == 0 {
        (0..dim).map(|_| rng.gen::<f64>()).collect()
    } else {
        (0..dim).map(|_| match rng.gen_range(0..6) { 0 => 0.5, 1 => 1e-3, 2 => 0.999, _ => rng.gen_range(0.01..0.99) }).collect()
    };
    let stab = match a % 4 { 0 => None, 1 => Some(1e-6), 2 => Some(1e-16), _ => Some(1e-18) };
    (x, stab, seed)
}

pub fn digest_bits(outcome: &str, nums: &[f64]) -> u64 {
    let mut h: u64 = 0xcbf29ce484222325;
    let mut eat = |b: u8| { h ^= b as u64; h = h.wrapping_mul(0x100000001b3); };
    for b in outcome.bytes() { eat(b); }
    for v in nums {
        let bits = if v.is_nan() { 0x7ff8000000000000u64 } else { v.to_bits() };
        for b in bits.to_le_bytes() { eat(b); }
    }
    h
}
