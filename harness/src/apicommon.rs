//! Shared by the harness (momtrop built with `log`) and harness_nolog (momtrop built without it):
//! origins (graph + D + signature + edge data) from Gen_Routing lines, deterministic arguments, digests.
use rand::{Rng, SeedableRng};
use serde_json::Value;

#[derive(Clone, Debug)]
pub struct Origin {
    pub edges: Vec<(u8, u8)>,
    pub mass: Vec<bool>,
    pub weights: Vec<f64>,
    pub ext: Vec<u8>,
    pub d: usize,
    pub sig: Vec<Vec<isize>>,
    pub m: Vec<f64>,
    pub p: Vec<Vec<f64>>,
    pub key: String,
}

fn ai(v: &Value) -> i64 { v.as_i64().expect("int") }

pub fn origins_from_lines(lines: &[Value], max: usize) -> Vec<Origin> {
    let mut out = vec![];
    for l in lines {
        let g = &l["g"];
        let wd = ai(&g["wd"]) as f64;
        for (ri, r) in l["routings"].as_array().unwrap().iter().enumerate().take(2) {
            let o = Origin {
                edges: g["edges"].as_array().unwrap().iter().map(|e| ((ai(&e[0]) * 37 % 251) as u8, (ai(&e[1]) * 37 % 251) as u8)).collect(),
                mass: g["mass"].as_array().unwrap().iter().map(|b| b.as_bool().unwrap()).collect(),
                weights: g["w"].as_array().unwrap().iter().map(|w| ai(w) as f64 / wd).collect(),
                ext: g["ext"].as_array().unwrap().iter().map(|v| (ai(v) * 37 % 251) as u8).collect(),
                d: ai(&g["D"]) as usize,
                sig: r["sig"].as_array().unwrap().iter().map(|row| row.as_array().unwrap().iter().map(|x| ai(x) as isize).collect()).collect(),
                m: l["m"].as_array().unwrap().iter().map(|x| ai(x) as f64).collect(),
                p: r["p"].as_array().unwrap().iter().map(|row| row.as_array().unwrap().iter().map(|x| ai(x) as f64).collect()).collect(),
                key: format!("{}#{}", g, ri),
            };
            if !out.iter().any(|x: &Origin| x.key == o.key) { out.push(o); }
            if out.len() >= max { return out; }
        }
    }
    out
}

/// argument number `a` for an origin of hypercube dimension `dim`: (x-space point, stability setting, rng seed)
/// even `a`: the point IS the sequence rng.gen::<f64>() of StdRng(seed) (so it can also be produced by
/// generate_sample_from_rng); odd `a`: corner-heavy point.
pub fn arg_for(okey: &str, dim: usize, a: usize) -> (Vec<f64>, Option<f64>, u64) {
    let mut h: u64 = 0xcbf29ce484222325;
    for b in okey.bytes() { h ^= b as u64; h = h.wrapping_mul(0x100000001b3); }
    let seed = h ^ (a as u64).wrapping_mul(0x9E3779B97F4A7C15);
    let mut rng = rand::rngs::StdRng::seed_from_u64(seed);
    let x: Vec<f64> = if a % 2 == 0 {
        (0..dim).map(|_| rng.gen::<f64>()).collect()
    } else {
        (0..dim).map(|_| match rng.gen_range(0..6) { 0 => 0.5, 1 => 1e-3, 2 => 0.999, _ => rng.gen_range(0.01..0.99) }).collect()
    };
    let stab = match a % 4 { 0 => None, 1 => Some(1e-6), 2 => Some(1e-16), _ => Some(1e-18) };
    (x, stab, seed)
}

pub fn digest_bits(outcome: &str, nums: &[f64]) -> u64 {
    let mut h: u64 = 0xcbf29ce484222325;
    let mut eat = |b: u8| { h ^= b as u64; h = h.wrapping_mul(0x100000001b3); };
    for b in outcome.bytes() { eat(b); }
    for v in nums {
        let bits = if v.is_nan() { 0x7ff8000000000000u64 } else { v.to_bits() };
        for b in bits.to_le_bytes() { eat(b); }
    }
    h
}
