//! mt: harness entry point.  mt <subcommand> --in FILE --out FILE [--seed N] [--opt k=v ...]
use mtharness::checks;
use mtharness::inst::Summary;
use serde_json::Value;
use std::collections::HashMap;
use std::io::{BufRead, Write};

pub struct Args {
    pub cmd: String,
    pub input: Option<String>,
    pub output: Option<String>,
    pub seed: u64,
    pub opts: HashMap<String, String>,
}

fn parse_args() -> Args {
    let mut it = std::env::args().skip(1);
    let cmd = it.next().unwrap_or_else(|| { eprintln!("usage: mt <cmd> --in F --out F"); std::process::exit(2) });
    let mut a = Args { cmd, input: None, output: None, seed: 1, opts: HashMap::new() };
    while let Some(k) = it.next() {
        match k.as_str() {
            "--in" => a.input = it.next(),
            "--out" => a.output = it.next(),
            "--seed" => a.seed = it.next().and_then(|s| s.parse().ok()).unwrap_or(1),
            "--opt" => {
                let kv = it.next().unwrap_or_default();
                if let Some((k, v)) = kv.split_once('=') { a.opts.insert(k.to_string(), v.to_string()); }
            }
            other => { eprintln!("mt: unknown argument {}", other); std::process::exit(2) }
        }
    }
    a
}

fn read_lines(p: &str) -> Vec<Value> {
    let f = std::fs::File::open(p).unwrap_or_else(|e| { eprintln!("mt: cannot open {}: {}", p, e); std::process::exit(2) });
    std::io::BufReader::new(f)
        .lines()
        .map(|l| l.unwrap())
        .filter(|l| !l.trim().is_empty())
        .map(|l| serde_json::from_str(&l).unwrap_or_else(|e| { eprintln!("mt: bad json line: {} in {}", e, l); std::process::exit(2) }))
        .collect()
}

fn write_summary(a: &Args, s: &Summary) {
    let txt = serde_json::to_string(s).unwrap();
    match &a.output {
        Some(p) => std::fs::write(p, txt).unwrap(),
        None => println!("{}", txt),
    }
}

fn main() {
    mtharness::dynsampler::quiet_panics();
    let a = parse_args();
    let opt = |k: &str| a.opts.get(k).cloned();
    match a.cmd.as_str() {
        "ser-hashes" => {
            let lines = read_lines(a.input.as_ref().unwrap());
            let o = checks::table::TableOpts { seed: a.seed, base_idx: opt("base_idx").and_then(|s| s.parse().ok()).unwrap_or(0), plain_labels: opt("plain").is_some() };
            let h = checks::table::ser_hashes(&lines, &o);
            let mut out = std::fs::File::create(a.output.as_ref().unwrap()).unwrap();
            for x in h { writeln!(out, "{}", x).unwrap(); }
        }
        "size-limits" => {
            let s = checks::table::size_limits(opt("max_e").and_then(|s| s.parse().ok()).unwrap_or(12));
            write_summary(&a, &s);
        }
        "replay-table" => {
            let lines = read_lines(a.input.as_ref().unwrap());
            let o = checks::table::TableOpts { seed: a.seed, base_idx: opt("base_idx").and_then(|s| s.parse().ok()).unwrap_or(0), plain_labels: opt("plain").is_some() };
            // second process: different hash seeds (ahash / std RandomState are per-process)
            let other = if opt("noxproc").is_none() {
                let tmp = format!("{}.xproc", a.output.as_ref().unwrap());
                let st = std::process::Command::new(std::env::current_exe().unwrap())
                    .args(["ser-hashes", "--in", a.input.as_ref().unwrap(), "--out", &tmp, "--seed", &a.seed.to_string()])
                    .args(if opt("plain").is_some() { vec!["--opt", "plain=1"] } else { vec![] })
                    .args(["--opt", &format!("base_idx={}", o.base_idx)])
                    .status().expect("spawn self");
                if !st.success() { eprintln!("mt: child failed"); std::process::exit(2) }
                let h = std::fs::read_to_string(&tmp).unwrap().lines().map(|s| s.to_string()).collect();
                let _ = std::fs::remove_file(&tmp);
                Some(h)
            } else { None };
            let s = checks::table::run(&lines, &o, other);
            write_summary(&a, &s);
        }
        "replay-sample" => {
            let lines = read_lines(a.input.as_ref().unwrap());
            let o = checks::sample::SampleOpts {
                stab_all: opt("stab_all").is_some(),
                seed: a.seed,
                base_idx: opt("base_idx").and_then(|s| s.parse().ok()).unwrap_or(0),
                points_per_line: opt("points").and_then(|s| s.parse().ok()).unwrap_or(12),
                boundary: opt("boundary").map(|s| s != "0").unwrap_or(true),
            };
            let s = checks::sample::run(&lines, &o);
            write_summary(&a, &s);
        }
        "replay-chol" => {
            let lines = read_lines(a.input.as_ref().unwrap());
            let s = checks::matrix::replay(&lines, a.seed, opt("base_idx").and_then(|s| s.parse().ok()).unwrap_or(0));
            write_summary(&a, &s);
        }
        "replay-dec" => {
            let lines = read_lines(a.input.as_ref().unwrap());
            let s = checks::matrix::replay_dec(&lines, &opt("trace").expect("--opt trace=FILE"));
            write_summary(&a, &s);
        }
        "record-matrix" => {
            let s = checks::matrix::record(a.seed, opt("count").and_then(|s| s.parse().ok()).unwrap_or(2000), &opt("trace").expect("--opt trace=FILE"));
            write_summary(&a, &s);
        }
        "record-gamma" => {
            let s = checks::gamma::record(a.seed, opt("shapes").and_then(|s| s.parse().ok()).unwrap_or(120), opt("dense").is_some(), &opt("trace").expect("--opt trace=FILE"));
            write_summary(&a, &s);
        }
        "replay-gamma" => {
            let lines = read_lines(a.input.as_ref().unwrap());
            let s = checks::gamma::replay(&lines, &opt("trace").expect("--opt trace=FILE"));
            write_summary(&a, &s);
        }
        "record-vector" => {
            let s = checks::vector::record(a.seed, opt("num").and_then(|s| s.parse().ok()).unwrap_or(2000), &opt("trace").expect("--opt trace=FILE"));
            write_summary(&a, &s);
        }
        "api-child" => {
            let lines = read_lines(a.input.as_ref().unwrap());
            checks::api::child(&lines, opt("origins").and_then(|s| s.parse().ok()).unwrap_or(6), opt("args").and_then(|s| s.parse().ok()).unwrap_or(4));
        }
        "replay-api-history" => {
            let hist = read_lines(a.input.as_ref().unwrap());
            let origins = read_lines(&opt("origins").expect("--opt origins=FILE"));
            let s = checks::apihist::run(&hist, &origins, opt("max").and_then(|s| s.parse().ok()).unwrap_or(200), &opt("trace").expect("--opt trace=FILE"));
            write_summary(&a, &s);
        }
        "record-api" => {
            let lines = read_lines(a.input.as_ref().unwrap());
            let o = checks::api::ApiOpts {
                seed: a.seed,
                origins: opt("origins").and_then(|s| s.parse().ok()).unwrap_or(6),
                args: opt("args").and_then(|s| s.parse().ok()).unwrap_or(4),
                threads: opt("threads").and_then(|s| s.parse().ok()).unwrap_or(8),
                calls_per_thread: opt("calls").and_then(|s| s.parse().ok()).unwrap_or(500),
                nolog_bin: opt("nolog"),
                input: a.input.clone().unwrap(),
            };
            let s = checks::api::run(&lines, &o, &opt("trace").expect("--opt trace=FILE"));
            write_summary(&a, &s);
        }
        "replay-sector" => {
            let lines = read_lines(a.input.as_ref().unwrap());
            let s = checks::sample::run_sector(&lines, a.seed, opt("base_idx").and_then(|s| s.parse().ok()).unwrap_or(0), opt("points").and_then(|s| s.parse().ok()).unwrap_or(3));
            write_summary(&a, &s);
        }
        "replay-dd" => {
            let lines = read_lines(a.input.as_ref().unwrap());
            let max = opt("max").and_then(|s| s.parse().ok()).unwrap_or(usize::MAX);
            let lines: Vec<_> = lines.into_iter().take(max).collect();
            let s = checks::ddprec::run(&lines, a.seed, opt("base_idx").and_then(|s| s.parse().ok()).unwrap_or(0), opt("points").and_then(|s| s.parse().ok()).unwrap_or(4));
            write_summary(&a, &s);
        }
        "replay-flow" => {
            let lines = read_lines(a.input.as_ref().unwrap());
            let s = checks::flow::replay(&lines, a.seed, &opt("trace").expect("--opt trace=FILE"));
            write_summary(&a, &s);
        }
        "record-flow" => {
            let lines = read_lines(a.input.as_ref().unwrap());
            let o = checks::flow::FlowOpts {
                seed: a.seed,
                runs_per_graph: opt("runs").and_then(|s| s.parse().ok()).unwrap_or(4),
                max_graphs: opt("graphs").and_then(|s| s.parse().ok()).unwrap_or(200),
            };
            let s = checks::flow::run(&lines, &o, &opt("trace").expect("--opt trace=FILE"));
            write_summary(&a, &s);
        }
        other => { eprintln!("mt: unknown subcommand {}", other); std::process::exit(2) }
    }
}
