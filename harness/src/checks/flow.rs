//! record-flow: binding mode V for C06 (edge choice vs. coordinate value), C13, C14, C19.
//! Runs the real generic sampler with the tracking scalar and writes the event trace that
//! spec/trace/Trace_Sample.tla validates.

use crate::dynsampler::*;
use crate::graphs::cycle_basis;
use crate::inst::*;
use crate::tr::{self, Event, Op, Tr};
use rand::Rng;
use serde_json::{json, Value};

pub struct FlowOpts {
    pub seed: u64,
    pub runs_per_graph: usize,
    pub max_graphs: usize,
}

fn leaf_coord(d: &tr::Dag, id: u32) -> Option<u32> {
    match d.nodes[id as usize].op {
        Op::Leaf(0, i) => Some(i),
        _ => None,
    }
}

/// events of one execution, in execution order
/// Events of one execution.  Reads are reported per coordinate (sorted by index): whether the coordinate acquired
/// a use at all, whether it was narrowed to f64 as a bare coordinate, and its lattice value when it has one.
/// Which ROLE a coordinate plays is decided by the specification (by its index), not by the recorder; the
/// order in which the code happens to touch the coordinates is not part of any property.
pub fn events_of(d: &tr::Dag, obs: Option<&Obs<Tr>>, outcome: &Outcome, log: &[(String, Value)], lattice: &[Option<(i64, i64)>], _order: Option<&[usize]>, allowed: &[f64]) -> Vec<Value> {
    let leafsets = d.leaf_sets();
    let used = d.used();
    let mut evs: Vec<Value> = vec![];
    // bare coordinates passed to to_f64
    let mut narrowed_bare: std::collections::BTreeMap<u32, usize> = Default::default();
    let mut other_narrows: Vec<Value> = vec![];
    for e in &d.events {
        if let Event::Narrow { node, .. } = e {
            match leaf_coord(d, *node) {
                Some(c) => { *narrowed_bare.entry(c).or_insert(0) += 1; }
                None => {
                    let ls = leafsets[*node as usize];
                    // a value built from constants only (table entries, literals) carries no user precision
                    if ls.x != 0 || ls.other != 0 {
                        other_narrows.push(json!({"ev": "Narrow", "coord": -1, "nleaves": ls.xs().len(), "other": ls.other != 0}));
                    }
                }
            }
        }
    }
    let mut coords: Vec<u32> = d.nodes.iter().enumerate().filter_map(|(i, n)| match n.op { Op::Leaf(0, c) if used[i] => Some(c), _ => None }).collect();
    coords.sort();
    coords.dedup();
    for &c in &coords {
        let (un, ud) = lattice.get(c as usize).copied().flatten().unwrap_or((0, 0));
        evs.push(json!({"ev": "Read", "coord": c, "narrow": narrowed_bare.contains_key(&c), "unum": un, "uden": ud}));
    }
    for (c, n) in &narrowed_bare { for _ in 1..*n { evs.push(json!({"ev": "Narrow", "coord": c, "nleaves": 1, "other": false})); } }
    evs.extend(other_narrows);
    // Ret
    let used = d.used();
    let used_coords: Vec<u32> = d.nodes.iter().enumerate().filter_map(|(i, n)| match n.op { Op::Leaf(0, c) if used[i] => Some(c), _ => None }).collect();
    let keys: Vec<&str> = log.iter().map(|(k, _)| k.as_str()).collect();
    let outname = match outcome { Outcome::Panic(m) => format!("Panic: {}", m.chars().take(120).collect::<String>()), o => o.name().to_string() };
    evs.push(json!({"ev": "Ret", "out": outname, "used": used_coords, "logs": keys}));
    if let Some(o) = obs {
        let ls = |t: &Tr| -> Vec<u32> { leafsets[t.id as usize].xs() };
        // kinematic arguments (mass of edge e: leaf (1, e); component i of the shift of edge e: leaf (2, 64 + 8 e + i)) that flow
        // into a returned quantity, as 1-based edge numbers
        let kin = |ids: &[u32]| -> (Vec<u32>, Vec<u32>) {
            let mut o = 0u128;
            for id in ids { o |= leafsets[*id as usize].other; }
            let ms: Vec<u32> = (0..64).filter(|b| o >> b & 1 == 1).map(|b| b + 1).collect();
            let mut sh: Vec<u32> = (64..128).filter(|b| o >> b & 1 == 1).map(|b| (b - 64) / 8 + 1).collect();
            sh.dedup();
            (ms, sh)
        };
        let outev = |name: &str, i: usize, leaves: Vec<u32>, ids: &[u32]| { let (ms, sh) = kin(ids); json!({"ev": "Out", "name": name, "i": i, "leaves": leaves, "masses": ms, "shifts": sh}) };
        if let Some(m) = &o.meta {
            let dd = m.q_vectors.get(0).map(|v| v.len()).unwrap_or(0);
            for (l, q) in m.q_vectors.iter().enumerate() {
                for (i, t) in q.iter().enumerate() {
                    // q = trig(theta) * r
                    let n = &d.nodes[t.id as usize];
                    let trig = if n.op == Op::Mul {
                        match d.nodes[n.a as usize].op { Op::Cos => "cos", Op::Sin => "sin", _ => match d.nodes.get(n.b as usize).map(|x| x.op) { Some(Op::Cos) => "cos", Some(Op::Sin) => "sin", _ => "other" } }
                    } else { "other" };
                    let lv = ls(t);
                    let (a, b) = if lv.len() == 2 { (lv[0] as i64, lv[1] as i64) } else { (-1, -1) };
                    evs.push(json!({"ev": "Q", "n": l * dd + i, "trig": trig, "a": a, "b": b, "nleaves": lv.len()}));
                }
            }
            evs.push(outev("lambda", 0, ls(&m.lambda), &[m.lambda.id]));
            let mut lm = std::collections::BTreeSet::new();
            for r in &m.l_matrix { for t in r { lm.extend(ls(t)); } }
            evs.push(outev("lmat", 0, lm.into_iter().collect::<Vec<_>>(), &m.l_matrix.iter().flatten().map(|t| t.id).collect::<Vec<_>>()));
            let mut sh = std::collections::BTreeSet::new();
            for r in &m.shift { for t in r { sh.extend(ls(t)); } }
            evs.push(outev("shift", 0, sh.into_iter().collect::<Vec<_>>(), &m.shift.iter().flatten().map(|t| t.id).collect::<Vec<_>>()));
        }
        evs.push(outev("u", 0, ls(&o.u), &[o.u.id]));
        evs.push(outev("v", 0, ls(&o.v), &[o.v.id]));
        evs.push(outev("jac", 0, ls(&o.jacobian), &[o.jacobian.id]));
        evs.push(outev("utrop", 0, ls(&o.u_trop), &[o.u_trop.id]));
        evs.push(outev("vtrop", 0, ls(&o.v_trop), &[o.v_trop.id]));
        for k in &o.loop_momenta {
            for (i, t) in k.iter().enumerate() {
                evs.push(outev("mom", i, ls(t), &[t.id]));
            }
        }
    }
    // ---- C19: f64 constants that flow into the returned values must be constants of the table (or the
    // documented settings), the Gamma variate being the one data-dependent exception
    if let Some(o) = obs {
        let mut roots: Vec<u32> = vec![o.u.id, o.v.id, o.jacobian.id];
        for k in &o.loop_momenta { for t in k { roots.push(t.id); } }
        if let Some(m) = &o.meta { for r in m.l_matrix.iter().chain(m.shift.iter()).chain(m.u_vectors.iter()) { for t in r { roots.push(t.id); } } }
        // ... and so must every constant a data-dependent branch is decided with
        for e in &d.events { if let Event::Cmp { a, b, .. } = e { roots.push(*a); roots.push(*b); } }
        let mut seen = vec![false; d.nodes.len()];
        let mut stack = roots;
        let lam = o.meta.as_ref().map(|m| m.lambda.v);
        let mut nlam = 0;
        while let Some(id) = stack.pop() {
            if id == tr::NOARG || seen[id as usize] { continue; }
            seen[id as usize] = true;
            let n = &d.nodes[id as usize];
            match n.op {
                Op::Const(tr::ConstKind::FromF64) => {
                    let ok = allowed.iter().any(|a| a.to_bits() == n.v.to_bits());
                    if !ok {
                        if lam.map(|l| l.to_bits() == n.v.to_bits()).unwrap_or(true) && nlam == 0 { nlam += 1; }
                        else { evs.push(json!({"ev": "Widen", "value": hexf(n.v), "note": format!("{:e}", n.v)})); }
                    }
                }
                Op::Leaf(..) | Op::Const(_) => {}
                _ => { stack.push(n.a); stack.push(n.b); }
            }
        }
    }
    evs
}

pub struct FlowRun {
    pub events: Vec<Value>,
    pub outcome: Outcome,
    /// how the mass argument of each edge was passed: 0 = None, 1 = Some(0.0), 2 = Some(non-zero)
    pub mpat: Vec<u8>,
    /// removal order (1-based edges) observed in the repository's debug log on the same point; empty = not observed
    pub order: Vec<usize>,
}

/// edges (1-based) that carry loop momentum in the routing the harness builds samplers with
pub fn loop_edges(g: &InstGraph) -> Vec<usize> {
    cycle_basis(&g.edges).iter().enumerate().filter(|(_, row)| row.iter().any(|&c| c != 0)).map(|(i, _)| i + 1).collect()
}

/// one traced execution
pub fn trace_one(s: &dyn DynSampler, g: &InstGraph, x: &[f64], lattice: &[Option<(i64, i64)>], extra: usize, set: &Settings, rng: &mut impl Rng, mpat_in: Option<&[u8]>) -> FlowRun {
    tr::reset();
    let dim = s.dim();
    let mut xs: Vec<Tr> = Vec::with_capacity(dim + extra);
    for i in 0..dim + extra {
        let v = if i < x.len() { x[i] } else { rng.gen_range(0.05..0.95) };
        xs.push(Tr::leaf(0, i as u32, v));
    }
    let d = s.d();
    // the mass argument of an edge the graph does not flag massive may be None, Some(0) or Some(non-zero): the flag shapes the
    // tropical approximation, the masses of the call are what V is made of
    let mpat: Vec<u8> = match mpat_in {
        Some(p) if p.len() == g.ne() => p.to_vec(),
        _ => (0..g.ne()).map(|e| if g.mass[e] { 2 } else { [0u8, 0, 1, 1, 2][rng.gen_range(0..5)] }).collect(),
    };
    let ed: EdgeData<Tr> = (0..g.ne())
        .map(|e| {
            let m = match mpat[e] { 0 => None, 1 => Some(Tr::leaf(1, e as u32, 0.0)), _ => Some(Tr::leaf(1, e as u32, rng.gen_range(0.1..2.0))) };
            let p = (0..d).map(|i| Tr::leaf(2, (64 + e * 8 + i) as u32, rng.gen_range(-2.0..2.0))).collect();
            (m, p)
        })
        .collect();
    let out = s.sample_tr(&xs, &ed, set);
    let dag = tr::take();
    // the same point through the f64 instantiation with the repository's own debug log: removal order
    let xf: Vec<f64> = xs.iter().take(dim).map(|t| t.v).collect();
    let edf: EdgeData<f64> = ed.iter().map(|(m, p)| (m.as_ref().map(|t| t.v), p.iter().map(|t| t.v).collect())).collect();
    let of = s.sample_f64(&xf, &edf, &Settings::new(None, true, false));
    let order = of.log.iter().find(|(k, _)| k == "momtrop_feynman_parameter_no_rescaling")
        .and_then(|(_, v)| crate::checks::sample::order_of(&arr(v).iter().map(|x| x.as_f64().unwrap_or(f64::NAN)).collect::<Vec<_>>()));
    // constants a sample may widen into its results: every number stored in the sampler, D/2 and the exponent
    // combinations the documented formulas need, the caller's tolerance
    let mut allowed: Vec<f64> = vec![];
    fn collect(v: &Value, out: &mut Vec<f64>) {
        match v { Value::Number(n) => if let Some(f) = n.as_f64() { out.push(f) },
                  Value::Array(a) => a.iter().for_each(|x| collect(x, out)),
                  Value::Object(o) => o.values().for_each(|x| collect(x, out)), _ => {} }
    }
    let js = s.to_json();
    collect(&js, &mut allowed);
    let (dd, dod) = (s.d() as f64, s.dod());
    let nl = js["table"]["tropical_graph"]["num_loops"].as_f64().unwrap_or(0.0);
    // (1 - 1e-9: the normalisation guard of sample_edge's last-edge fallback, commit fac9fd0)
    allowed.extend([dd / 2.0, -(dd / 2.0), dd / 2.0 * nl + dod, -dod, 0.0, 1.0, 2.0, 0.5, 5.0, std::f64::consts::PI, 1.0 - 1.0e-9]);
    if let Some(t) = set.stability { allowed.push(t); }
    let events = events_of(&dag, out.obs.as_ref(), &out.outcome, &out.log, lattice, order.as_deref(), &allowed);
    FlowRun { events, outcome: out.outcome, mpat, order: order.map(|o| o.iter().map(|e| e + 1).collect()).unwrap_or_default() }
}

pub fn run(lines: &[Value], opts: &FlowOpts, trace_path: &str) -> Summary {
    use std::io::Write;
    let mut sm = Summary::default();
    let mut f = std::io::BufWriter::new(std::fs::File::create(trace_path).unwrap());
    let mut rng = rng_for(opts.seed, 77);
    let mut ngraphs = 0;
    let mut run_id = 0u64;
    // accepted graphs with >= 2 edges first (seeded shuffle), so that the sector loop is exercised
    use rand::seq::SliceRandom;
    let mut order: Vec<&Value> = lines.iter().filter(|i| !i["div"].as_bool().unwrap_or(false)).collect();
    order.shuffle(&mut rng);
    // larger graphs first (at most a fifth of the budget), then the rest
    order.sort_by_key(|i| if as_i64(&i["E"]) >= 5 { 0 } else if as_i64(&i["E"]) >= 2 { 1 } else { 2 });
    let nbig = order.iter().filter(|i| as_i64(&i["E"]) >= 5 && as_i64(&i["L"]) >= 1 && as_i64(&i["dod"]) > 0).count();
    if nbig > opts.max_graphs / 5 {
        let cut = nbig - opts.max_graphs / 5;
        order.drain(0..cut);
    }
    for inst in order.into_iter() {
        if inst["div"].as_bool().unwrap_or(false) { continue; }
        let g = InstGraph::parse(&inst["g"]);
        if as_i64(&inst["dod"]) <= 0 { sm.count("skipped_dod_nonpositive"); continue; }
        if as_i64(&inst["L"]) < 1 { sm.count("skipped_no_loop"); continue; }
        if ngraphs >= opts.max_graphs { break; }
        ngraphs += 1;
        let map = g.label_map(&mut rng, false);
        let spec = g.to_spec_messy(&map, &[], &mut rng);
        let sig = cycle_basis(&g.edges);
        let s = match build(&spec, sig, g.d) { BuildOut::Ok(s) => s, _ => { sm.count("build_not_ok"); continue; } };
        if ngraphs % 2 == 0 {
            let edf: EdgeData<f64> = (0..g.ne()).map(|e| (Some(if g.mass[e] { 1.0 } else { 0.0 }), vec![0.5; g.d])).collect();
            let _ = s.sample_rng(&edf, &Settings::new(None, false, false), opts.seed ^ ngraphs as u64);
            sm.count("graphs_warmed_up_through_rng");
        }
        // ---- C14, semantically (no tracking scalar): every coordinate below the dimension changes the result when
        // it changes; coordinates appended beyond the dimension change nothing
        if ngraphs % 3 == 0 {
            let dim = s.dim();
            let e = g.ne();
            // every edge gets a mass here so that V > 0 (with V = 0 the momenta do not depend on lambda and the Gaussians at all)
            let edf: EdgeData<f64> = (0..e).map(|k| (Some(1.25 + 0.25 * k as f64), (0..g.d).map(|c| 0.5 + ((k + c) % 3) as f64).collect())).collect();
            let set0 = Settings::new(None, false, true);
            let base: Vec<f64> = (0..dim).map(|_| rng.gen_range(0.2..0.8)).collect();
            let dg = |x: &[f64]| -> (u64, bool) { let o = s.sample_f64(x, &edf, &set0); (crate::checks::api::digest_of(&o), o.outcome == Outcome::Ok) };
            let (d0, ok0) = dg(&base);
            let v_pos = { let o = s.sample_f64(&base, &edf, &set0); o.obs.map(|o| o.v > 1e-6 && o.v.is_finite()).unwrap_or(false) };
            if ok0 && v_pos {
                sm.count("perturbation_points");
                let mut longer = base.clone(); longer.extend([0.123, 0.987, 0.5]);
                if dg(&longer).0 != d0 { sm.violation("C14", "coordinates beyond get_dimension() change the sample".into(), json!({"line": inst, "x": base.iter().map(|v| hexf(*v)).collect::<Vec<_>>()}), json!({"perturbation": "beyond"})); }
                let mut longer2 = base.clone(); longer2.extend([0.9, 1e-9, 0.0]);
                if dg(&longer2).0 != d0 { sm.violation("C14", "coordinates beyond get_dimension() change the sample".into(), json!({"line": inst, "x": base.iter().map(|v| hexf(*v)).collect::<Vec<_>>()}), json!({"perturbation": "beyond"})); }
                for i in 0..dim {
                    let is_edge = i < 2 * e - 2 && i % 2 == 0;
                    let mut changed = false;
                    if is_edge {
                        if i != 0 { continue; }   // later edge coordinates need steering; the first one is decided on the full graph
                        let cum: Vec<Option<f64>> = arr(&inst["cum"][(1usize << e) - 1]).iter().map(|r| { let (a, b) = (as_i64(&r[0]), as_i64(&r[1])); if b == 0 { None } else { Some(a as f64 / b as f64) } }).collect();
                        if cum.len() < 2 || cum.iter().any(|c| c.is_none()) { continue; }
                        let c: Vec<f64> = cum.iter().map(|c| c.unwrap()).collect();
                        let (lo, hi) = (0.5 * c[0], 0.5 * (c[c.len() - 2] + 1.0));
                        if c[0] < 1e-6 || 1.0 - c[c.len() - 2] < 1e-6 { continue; }
                        let (mut xa, mut xb) = (base.clone(), base.clone());
                        xa[i] = lo; xb[i] = hi;
                        changed = dg(&xa).0 != dg(&xb).0;
                    } else {
                        for f in [1.0 + 1e-3, 1.0 - 1e-3, 0.5] { let mut xp = base.clone(); xp[i] = (base[i] * f).clamp(1e-6, 1.0 - 1e-6); if dg(&xp).0 != d0 { changed = true; break; } }
                    }
                    // when D*L is odd the last Box-Muller angle only enters the discarded sine together with the kept cosine: it still matters
                    if !changed {
                        sm.violation("C14", format!("coordinate {} (of {}) does not influence the sample", i, dim), json!({"line": inst, "x": base.iter().map(|v| hexf(*v)).collect::<Vec<_>>()}), json!({"perturbation": i}));
                    }
                    sm.count("perturbed_coordinates");
                }
            }
        }
        for r in 0..opts.runs_per_graph {
            let set = Settings::new(if rng.gen_bool(0.3) { Some(1e-6) } else { None }, r % 4 == 3, r % 4 != 2);
            let dim = s.dim();
            let e = g.ne();
            let mut x = vec![0.0; dim];
            let mut lat: Vec<Option<(i64, i64)>> = vec![None; dim];
            for i in 0..dim {
                if i < 2 * e - 2 && i % 2 == 0 {
                    let k = rng.gen_range(0..1024i64);
                    x[i] = k as f64 / 1024.0;
                    lat[i] = Some((k, 1024));
                } else {
                    x[i] = rng.gen_range(1e-3..1.0 - 1e-3);
                }
            }
            // now and then Box-Muller coordinates next to the ends of (0,1)
            if r == 2 && dim > 2 * e - 1 {
                for i in (2 * e - 1)..dim { if rng.gen_bool(0.5) { x[i] = [1.0 - 1e-9, 1.0 - f64::EPSILON / 2.0, 1e-300, f64::MIN_POSITIVE, 1e-12, 0.0][rng.gen_range(0..6)]; } }
                sm.count("runs_with_extreme_box_muller");
            }
            // now and then one xi so small that the running product kappa underflows to 0
            if e >= 3 && r == 1 && ngraphs % 5 == 0 {
                let k = rng.gen_range(0..e - 1);
                x[2 * k + 1] = [1e-300, f64::MIN_POSITIVE, 1e-200][rng.gen_range(0..3)];
                sm.count("runs_with_underflowing_xi");
            }
            // now and then a Gamma coordinate for which the quantile is an error (0 for dod >= 1) or next to it: the call then ends
            // with GammaError after 2E-1 reads, it must not go on reading
            if r == 3 && ngraphs % 3 == 0 && dim > 2 * e - 2 {
                x[2 * e - 2] = [0.0, 0.0, f64::MIN_POSITIVE, 1e-300][rng.gen_range(0..4)];
                sm.count("runs_with_degenerate_gamma_coordinate");
            }
            let extra = if r % 2 == 0 { 3 } else { 0 };
            let fr = trace_one(s.as_ref(), &g, &x, &lat, extra, &set, &mut rng, None);
            run_id += 1;
            sm.evaluations += 1;
            sm.count(&format!("outcome_{}", fr.outcome.name()));
            if e >= 3 { sm.nontrivial += 1; }
            let reset = json!({"ev": "Reset", "run": run_id, "g": inst["g"], "stab": set.stability.is_some(), "debug": set.debug, "meta": set.meta,
                               "x": x.iter().map(|v| hexf(*v)).collect::<Vec<_>>(), "extra": extra, "order": fr.order,
                               "mpat": fr.mpat, "margs": (0..e).filter(|&i| fr.mpat[i] != 0).map(|i| i + 1).collect::<Vec<_>>(),
                               "loopedges": loop_edges(&g), "kin": e <= 7,
                               "lat": lat.iter().map(|l| l.map(|p| p.0).unwrap_or(-1)).collect::<Vec<_>>()});
            writeln!(f, "{}", reset).unwrap();
            sm.events += 1 + fr.events.len() as u64;
            if sm.samples.len() < 2 { sm.sample(json!({"reset": reset, "events": fr.events})); }
            for ev in &fr.events { writeln!(f, "{}", ev).unwrap(); }
        }
    }
    sm.add("graphs", ngraphs as i64);
    sm
}


/// replay-flow: re-execute recorded runs (their Reset events carry graph, settings, point) through the real code
pub fn replay(resets: &[Value], seed: u64, trace_path: &str) -> Summary {
    use std::io::Write;
    let mut sm = Summary::default();
    let mut f = std::io::BufWriter::new(std::fs::File::create(trace_path).unwrap());
    let mut rng = rng_for(seed, 77);
    for r in resets.iter().filter(|r| r["ev"] == "Reset") {
        let g = InstGraph::parse(&r["g"]);
        let map = g.label_map(&mut rng, false);
        let spec = g.to_spec(&map, &[]);
        let s = match build(&spec, cycle_basis(&g.edges), g.d) { BuildOut::Ok(s) => s, _ => { sm.count("build_not_ok"); continue; } };
        let x: Vec<f64> = arr(&r["x"]).iter().map(|h| unhexf(h.as_str().unwrap())).collect();
        let lat: Vec<Option<(i64, i64)>> = match r.get("lat") { Some(l) if l.is_array() => arr(l).iter().map(|v| { let k = as_i64(v); if k >= 0 { Some((k, 1024)) } else { None } }).collect(), _ => vec![None; x.len()] };
        let set = Settings::new(if r["stab"].as_bool().unwrap_or(false) { Some(1e-6) } else { None }, r["debug"].as_bool().unwrap_or(false), r["meta"].as_bool().unwrap_or(true));
        let extra = r.get("extra").and_then(|v| v.as_u64()).unwrap_or(0) as usize;
        let mp: Option<Vec<u8>> = r.get("mpat").and_then(|v| v.as_array()).map(|a| a.iter().map(|x| x.as_u64().unwrap_or(0) as u8).collect());
        let fr = trace_one(s.as_ref(), &g, &x, &lat, extra, &set, &mut rng, mp.as_deref());
        let mut r = r.clone();
        r["order"] = json!(fr.order);
        writeln!(f, "{}", r).unwrap();
        for ev in &fr.events { writeln!(f, "{}", ev).unwrap(); }
        sm.evaluations += 1;
        sm.events += 1 + fr.events.len() as u64;
    }
    sm
}
