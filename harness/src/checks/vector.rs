//! record-vector (mode V, C20): the terms the real `Vector<Tr, D>` operators build are recorded and
//! compared by TLC with VectorAlg.tla; the f64 instantiation is tied to the validated terms by evaluating
//! them in IEEE arithmetic; the f64 implementation of MomTropFloat is compared with the standard library.

use crate::inst::*;
use crate::tr::{self, Op, Tr};
use momtrop::float::MomTropFloat;
use momtrop::vector::Vector;
use rand::Rng;
use serde_json::{json, Value};

fn eval_term(d: &tr::Dag, id: u32, leaf: &dyn Fn(u8, u32) -> f64) -> f64 {
    let n = &d.nodes[id as usize];
    match n.op {
        Op::Leaf(k, i) => leaf(k, i),
        Op::Const(_) => n.v,
        Op::Add => eval_term(d, n.a, leaf) + eval_term(d, n.b, leaf),
        Op::Sub => eval_term(d, n.a, leaf) - eval_term(d, n.b, leaf),
        Op::Mul => eval_term(d, n.a, leaf) * eval_term(d, n.b, leaf),
        Op::Div => eval_term(d, n.a, leaf) / eval_term(d, n.b, leaf),
        Op::Neg => -eval_term(d, n.a, leaf),
        _ => f64::NAN,
    }
}

fn special(rng: &mut impl Rng) -> f64 {
    match rng.gen_range(0..16) {
        12 => 1.5e-162, 13 => -3e-155, 14 => 1e-160, 15 => 2.1e154,
        0 => 0.0, 1 => -0.0, 2 => f64::MIN_POSITIVE, 3 => -f64::from_bits(3), 4 => 1e300, 5 => -1e300, 6 => 1e-300,
        7 => 1.0, 8 => -1.0, _ => rng.gen_range(-1e3..1e3),
    }
}

fn run_d<const D: usize>(sm: &mut Summary, out: &mut Vec<Value>, rng: &mut impl Rng, nnum: usize) {
    tr::reset();
    let mk = |k: u8| -> Vector<Tr, D> { Vector::from_vec((0..D).map(|i| Tr::leaf(k, i as u32, 0.0)).collect()) };
    let (v, w) = (mk(1), mk(2));
    let s = Tr::leaf(3, 0, 0.0);
    let mut results: Vec<(&str, Vec<u32>)> = vec![];
    let ids = |x: &Vector<Tr, D>| -> Vec<u32> { x.get_elements().iter().map(|t| t.id).collect() };
    results.push(("add", ids(&(&v + &w))));
    results.push(("sub", ids(&(&v - &w))));
    results.push(("mulT", ids(&(&v * s.clone()))));
    results.push(("mulRef", ids(&(&v * &s))));
    let mut aa = v.clone(); aa += w.clone();
    results.push(("addassign", ids(&aa)));
    results.push(("dot", vec![v.dot(&w).id]));
    results.push(("squared", vec![v.squared().id]));
    results.push(("new", ids(&v.new())));
    results.push(("new_from_num", ids(&Vector::<Tr, D>::new_from_num(&s))));
    results.push(("zero", vec![v.zero().id]));
    // constructors / accessors round-trip their elements
    let arr: [Tr; D] = std::array::from_fn(|i| Tr::leaf(1, i as u32, 0.0));
    results.push(("from_array", ids(&Vector::from_array(arr.clone()))));
    results.push(("from_slice", ids(&Vector::from_slice(&arr))));
    results.push(("from_vec", ids(&Vector::<Tr, D>::from_vec(arr.to_vec()))));
    results.push(("index", (0..D).map(|i| v[i].id).collect()));
    let mut vm = v.clone(); if D > 0 { vm[D - 1] = s.clone(); }
    results.push(("index_mut", ids(&vm)));
    let len_ok = v.len() == D;
    let dag = tr::take();
    for (op, idv) in &results {
        let terms: Vec<Value> = idv.iter().map(|&i| dag.term(i)).collect();
        out.push(json!({"ev": "Term", "op": op, "D": D, "terms": terms}));
        sm.evaluations += 1;
    }
    out.push(json!({"ev": "Len", "D": D, "ok": len_ok}));
    // numeric: the validated terms evaluated in IEEE arithmetic must equal the f64 instantiation bit for bit
    let mut mismatches = 0;
    for _ in 0..nnum {
        let a: [f64; D] = std::array::from_fn(|_| special(rng));
        let b: [f64; D] = std::array::from_fn(|_| special(rng));
        let sc = special(rng);
        let leaf = |k: u8, i: u32| -> f64 { match k { 1 => a[i as usize], 2 => b[i as usize], _ => sc } };
        let (fv, fw) = (Vector::<f64, D>::from_array(a), Vector::<f64, D>::from_array(b));
        let mut faa = fv; faa += fw;
        let got: Vec<(&str, Vec<f64>)> = vec![
            ("add", (&fv + &fw).get_elements().to_vec()), ("sub", (&fv - &fw).get_elements().to_vec()),
            ("mulT", (&fv * sc).get_elements().to_vec()), ("mulRef", (&fv * &sc).get_elements().to_vec()),
            ("addassign", faa.get_elements().to_vec()), ("dot", vec![fv.dot(&fw)]), ("squared", vec![fv.squared()]),
        ];
        for (op, vals) in got {
            let idv = &results.iter().find(|r| r.0 == op).unwrap().1;
            for (k, &id) in idv.iter().enumerate() {
                let want = eval_term(&dag, id, &leaf);
                if want.to_bits() != vals[k].to_bits() && !(want.is_nan() && vals[k].is_nan()) { mismatches += 1; }
            }
        }
        sm.evaluations += 1;
    }
    out.push(json!({"ev": "Numeric", "D": D, "mismatches": mismatches, "tried": nnum}));
    sm.nontrivial += 1;
}

pub fn record(seed: u64, nnum: usize, trace_path: &str) -> Summary {
    use std::io::Write;
    let mut sm = Summary::default();
    let mut out = vec![];
    let mut rng = rng_for(seed, 2020);
    run_d::<1>(&mut sm, &mut out, &mut rng, nnum); run_d::<2>(&mut sm, &mut out, &mut rng, nnum);
    run_d::<3>(&mut sm, &mut out, &mut rng, nnum); run_d::<4>(&mut sm, &mut out, &mut rng, nnum);
    run_d::<5>(&mut sm, &mut out, &mut rng, nnum); run_d::<6>(&mut sm, &mut out, &mut rng, nnum);
    run_d::<7>(&mut sm, &mut out, &mut rng, nnum); run_d::<8>(&mut sm, &mut out, &mut rng, nnum);
    // the f64 implementation of the scalar trait against the standard library
    let x0 = 1.0f64;
    let mut bad: Vec<String> = vec![];
    let mut ints: Vec<isize> = vec![0, 1, -1, 2, -2, 3, 10, -10, 255, 256, 257, 65535, 65537, 16777215, 16777216, 16777217, -16777217];
    for k in 1..=53u32 { let b = 1isize << k; ints.extend([b, b - 1, -(b - 1)]); if k < 53 { ints.push(b + 1); } }
    for n in &ints { if x0.from_isize(*n) != *n as f64 || (x0.from_isize(*n) as i128) != *n as i128 { bad.push(format!("from_isize({})", n)); } }
    if x0.zero().to_bits() != 0.0f64.to_bits() { bad.push("zero".into()); }
    if x0.one() != 1.0 { bad.push("one".into()); }
    if x0.PI().to_bits() != std::f64::consts::PI.to_bits() { bad.push("PI".into()); }
    let mut tried = 0;
    for i in 0..20000 {
        let x = if i % 4 == 0 { special(&mut rng) } else { 10f64.powf(rng.gen_range(-300.0..300.0)) * if rng.gen_bool(0.5) { -1.0 } else { 1.0 } };
        let y = rng.gen_range(-4.0..4.0);
        let eq = |a: f64, b: f64| a.to_bits() == b.to_bits() || (a.is_nan() && b.is_nan());
        let checks: [(&str, f64, f64); 11] = [
            ("inv", x.inv(), 1.0 / x), ("ln", MomTropFloat::ln(&x), f64::ln(x)), ("exp", MomTropFloat::exp(&y), f64::exp(y)),
            ("cos", MomTropFloat::cos(&x), f64::cos(x)), ("sin", MomTropFloat::sin(&x), f64::sin(x)), ("sqrt", MomTropFloat::sqrt(&x), f64::sqrt(x)),
            ("abs", MomTropFloat::abs(&x), f64::abs(x)), ("powf", MomTropFloat::powf(&x.abs(), &y), f64::powf(x.abs(), y)),
            ("powf_neg_int", MomTropFloat::powf(&x, &-2.0), f64::powf(x, -2.0)),
            ("from_f64", x0.from_f64(x), x), ("to_f64", x.to_f64(), x),
        ];
        for (name, a, b) in checks { tried += 1; if !eq(a, b) { if bad.len() < 20 { bad.push(format!("{}({:e})", name, x)); } } }
        for e in [-3.0, -2.0, -1.0, -0.5, 0.0, 0.5, 1.0, 2.0, 3.0, 4.0, 1.5, 2.5] {
            tried += 1;
            if !eq(MomTropFloat::powf(&x, &e), f64::powf(x, e)) && bad.len() < 20 { bad.push(format!("powf({:e},{})", x, e)); }
        }
    }
    sm.evaluations += tried;
    out.push(json!({"ev": "Float", "tried": tried as i64, "bad": bad}));
    let mut f = std::io::BufWriter::new(std::fs::File::create(trace_path).unwrap());
    for e in &out { writeln!(f, "{}", e).unwrap(); }
    sm.events = out.len() as u64;
    for e in out.iter().filter(|e| e["ev"] == "Term").take(2) { sm.sample(e.clone()); }
    sm
}
