pub mod api;
pub mod apihist;
pub mod flow;
pub mod gamma;
pub mod matrix;
pub mod sample;
pub mod table;
pub mod vector;
