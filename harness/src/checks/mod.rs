pub mod flow;
pub mod matrix;
pub mod sample;
pub mod table;
