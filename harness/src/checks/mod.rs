pub mod flow;
pub mod table;
