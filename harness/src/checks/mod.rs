pub mod table;
