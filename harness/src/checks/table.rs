//! replay-table: binding mode R for C03, C04, C05 (static part of C06: probabilities sum to 1).
//! Each input line is a graph with the specification's exact table; the real sampler is built
//! and every one of the 2^E entries is compared.

use crate::dynsampler::{build, BuildOut, DynSampler};
use crate::inst::*;
use rand::Rng;
use serde_json::{json, Value};

pub struct TableOpts {
    pub seed: u64,
    pub base_idx: u64,
    pub plain_labels: bool,
}

fn hash_str(s: &str) -> u64 {
    // FNV-1a, stable across processes (unlike the std hasher)
    let mut h: u64 = 0xcbf29ce484222325;
    for b in s.bytes() {
        h ^= b as u64;
        h = h.wrapping_mul(0x100000001b3);
    }
    h
}

/// builds the sampler for an instance line, deterministically from (seed, line index)
pub fn build_for(inst: &Value, idx: u64, opts: &TableOpts) -> (InstGraph, Vec<u8>, Vec<bool>, BuildOut) {
    let g = InstGraph::parse(&inst["g"]);
    let mut rng = rng_for(opts.seed, idx);
    let map = g.label_map(&mut rng, opts.plain_labels);
    let swap: Vec<bool> = (0..g.ne()).map(|_| !opts.plain_labels && rng.gen_bool(0.5)).collect();
    let spec = g.to_spec_messy(&map, &swap, &mut rng);
    // any signature is accepted at build time; use a column per loop of zeros
    let l = inst["L"].as_i64().unwrap_or(1).max(1) as usize;
    let sig = vec![vec![0isize; l]; g.ne()];
    let out = build(&spec, sig, g.d);
    (g, map, swap, out)
}

/// one hash per line of the serialised sampler ("-" when not Ok); used for cross-process determinism
pub fn ser_hashes(lines: &[Value], opts: &TableOpts) -> Vec<String> {
    lines
        .iter()
        .enumerate()
        .map(|(i, inst)| match build_for(inst, i as u64 + opts.base_idx, opts).3 {
            BuildOut::Ok(s) => format!("{:016x}", hash_str(&s.to_json_string())),
            BuildOut::Err(_) => "E".to_string(),
            BuildOut::Panic(_) => "P".to_string(),
        })
        .collect()
}

/// Re-weighted instance: the loop numbers and spanning flags of a line do not depend on the weights, so the
/// same structure decides the table for ANY weights.  The harness draws weights over 19 orders of magnitude
/// (far outside TLC's 32-bit lattice), evaluates omega = sum w - D/2 l - [s] dod and the J recursion exactly
/// (BigRational on the exact values of the doubles) from the TLC-computed l and s, and compares the real table.
fn reweighted(inst: &Value, i: u64, opts: &TableOpts, sm: &mut Summary) {
    use num::rational::BigRational as Q;
    use num::{Signed, ToPrimitive, Zero, One};
    let g = InstGraph::parse(&inst["g"]);
    let e = g.ne();
    if e == 0 || e > 6 { return; }
    let mut rng = rng_for(opts.seed ^ 0x5151, i + opts.base_idx);
    const PAL: [f64; 14] = [1e-13, 1e-11, 1e-9, 1e-6, 1e-3, 0.3, 1.0 / 3.0, 0.7, 1.0, 1.5, 2.5, 1e3, 1e6, 1e9];
    let small_bias = rng.gen_bool(0.5);
    let w: Vec<f64> = (0..e).map(|_| if small_bias && rng.gen_bool(0.4) { PAL[rng.gen_range(0..4)] } else { PAL[rng.gen_range(4..11)] }).collect();
    let wq: Vec<Q> = w.iter().map(|&x| Q::from_float(x).unwrap()).collect();
    let n = 1usize << e;
    let half_d = Q::new((g.d as i64).into(), 2.into());
    let lq = |id: usize| Q::from_integer(as_i64(&inst["l"][id]).into());
    let sum = |id: usize| (0..e).filter(|b| id >> b & 1 == 1).fold(Q::zero(), |a, b| a + &wq[b]);
    let dod = sum(n - 1) - &half_d * lq(n - 1);
    let gd: Vec<Q> = (0..n).map(|id| if id == 0 { Q::one() } else {
        sum(id) - &half_d * lq(id) - if inst["s"][id].as_bool().unwrap() { dod.clone() } else { Q::zero() } }).collect();
    let div = (1..n - 1).any(|id| !gd[id].is_positive());
    let tiny = Q::from_float(1e-9).unwrap();
    let near = (1..n - 1).any(|id| gd[id].abs() <= tiny);
    let map = g.label_map(&mut rng, false);
    let mut spec = g.to_spec_messy(&map, &[], &mut rng);
    spec.weights = w.clone();
    let l = inst["L"].as_i64().unwrap_or(1).max(1) as usize;
    let out = build(&spec, vec![vec![0isize; l]; e], g.d);
    sm.count("reweighted_instances");
    let ident = json!({"line": inst, "idx": i + opts.base_idx, "reweighted": w.iter().map(|x| hexf(*x)).collect::<Vec<_>>(), "weights": w});
    let q2f = |q: &Q| -> f64 { q.numer().to_f64().unwrap_or(f64::NAN) / q.denom().to_f64().unwrap_or(f64::NAN) };
    match &out {
        BuildOut::Panic(m) => { sm.violation("C05", format!("build_sampler panicked (re-weighted instance): {}", m), ident, json!({"reweighted": true})); }
        BuildOut::Err(_) => { if !div && !near { sm.violation("C05", "build_sampler returned Err although every proper subset has omega > 1e-9 (re-weighted instance)".into(), ident, json!({"reweighted": true})); } }
        BuildOut::Ok(s) => {
            if div && !near { sm.violation("C05", "build_sampler returned Ok although a proper subset has omega < -1e-9 (re-weighted instance)".into(), ident, json!({"reweighted": true})); return; }
            let js = s.to_json();
            let tbl = arr(&js["table"]["table"]);
            if tbl.len() != n { return; }
            let wabs: f64 = w.iter().sum::<f64>() + g.d as f64 / 2.0 * l as f64;
            let mut bad = vec![];
            for id in 0..n {
                let t = &tbl[id];
                let gdc = t["generalized_dod"].as_f64().unwrap_or(f64::NAN);
                let want = q2f(&gd[id]);
                // the code's omega carries the rounding of a few additions of numbers of size <= wabs
                let tol = 16.0 * (e as f64 + 2.0) * f64::EPSILON * (wabs + q2f(&dod).abs());
                if as_i64(&t["loop_number"]) != as_i64(&inst["l"][id]) || t["mass_momentum_spanning"].as_bool() != inst["s"][id].as_bool() || !((gdc - want).abs() <= tol) {
                    bad.push(json!({"id": id, "code": gdc, "exact": want, "tol": tol}));
                }
            }
            sm.add("reweighted_entries_compared", n as i64);
            if !bad.is_empty() { sm.violation("C03", format!("{} table entries of a re-weighted instance differ from the exact values", bad.len()), ident.clone(), json!({"entries": bad, "reweighted": true})); }
            // J: exact recursion on the exact omegas, when every omega is comfortably positive relative to rounding
            let safe = (1..n).all(|id| id == n - 1 || q2f(&gd[id]) > 1e4 * f64::EPSILON * wabs);
            if !div && safe {
                let mut jq: Vec<Q> = vec![Q::one(); n];
                for id in 1..n { jq[id] = (0..e).filter(|b| id >> b & 1 == 1).fold(Q::zero(), |a, b| { let sub = id ^ (1 << b); a + &jq[sub] / &gd[sub] }); }
                let mut badj = vec![];
                for id in 0..n {
                    let jc = tbl[id]["j_function"].as_f64().unwrap_or(f64::NAN);
                    let want = q2f(&jq[id]);
                    // relative error: E levels of (sum of positive terms) / omega, omega known to ~eps*wabs/omega relative
                    let cond = (1..n).filter(|x| *x != n - 1).map(|x| wabs / q2f(&gd[x])).fold(1.0, f64::max);
                    if !(rel_err(jc, want) <= 64.0 * e as f64 * f64::EPSILON * cond) { badj.push(json!({"id": id, "code": jc, "exact": want, "cond": cond})); }
                }
                sm.count("reweighted_j_compared");
                if !badj.is_empty() { sm.violation("C04", format!("{} J entries of a re-weighted instance differ from the exact recursion", badj.len()), ident, json!({"entries": badj, "reweighted": true})); }
            }
        }
    }
}

/// History variants on the same thread, right after the instance itself was built with the SAME vertex labels:
/// (a) the same graph with its edges listed in another order (the expected table is the specification's table with
/// the bit-masks permuted); (b) the bit-identical graph for another dimension D' (loop numbers and spanning flags do
/// not depend on D, so omega' follows exactly).  What an earlier build left behind must not influence a later one.
fn history_variants(inst: &Value, i: u64, opts: &TableOpts, sm: &mut Summary) {
    let g = InstGraph::parse(&inst["g"]);
    let e = g.ne();
    if e < 2 || e > 6 || !g.exact_weights() { return; }
    let mut rng = rng_for(opts.seed, i + opts.base_idx);           // the same draws as build_for: same labels
    let map = g.label_map(&mut rng, opts.plain_labels);
    let _swap: Vec<bool> = (0..e).map(|_| !opts.plain_labels && rng.gen_bool(0.5)).collect();
    let base = g.to_spec(&map, &[]);
    let n = 1usize << e;
    let wd = g.wd as f64;
    let lnum = inst["L"].as_i64().unwrap_or(1).max(1) as usize;
    let ident = |what: &str| json!({"line": inst, "idx": i + opts.base_idx, "history": what});
    // make sure the original order has been built on this thread with exactly these labels
    let _ = build(&base, vec![vec![0isize; lnum]; e], g.d);
    // (a) permuted twin
    use rand::seq::SliceRandom;
    let mut perm: Vec<usize> = (0..e).collect();
    perm.shuffle(&mut rng);
    if perm.iter().enumerate().any(|(a, b)| a != *b) {
        let spec = crate::dynsampler::GraphSpec {
            edges: perm.iter().map(|&k| base.edges[k]).collect(), mass: perm.iter().map(|&k| base.mass[k]).collect(),
            weights: perm.iter().map(|&k| base.weights[k]).collect(), ext: base.ext.clone() };
        let out = build(&spec, vec![vec![0isize; lnum]; e], g.d);
        sm.count("history_permuted_builds");
        let div = inst["div"].as_bool().unwrap();
        match &out {
            BuildOut::Panic(m) => sm.violation("C05", format!("build_sampler panicked on the same graph with permuted edge order: {}", m), ident("permuted"), json!({"perm": perm})),
            BuildOut::Err(_) => if !div { sm.violation("C05", "the same graph with its edges in another order, built right after it, is rejected although no proper subset is divergent".into(), ident("permuted"), json!({"perm": perm})) },
            BuildOut::Ok(s) => {
                if div { sm.violation("C05", "the same graph with its edges in another order, built right after it, is accepted although a proper subset is divergent".into(), ident("permuted"), json!({"perm": perm})); }
                else {
                    let js = s.to_json();
                    let tbl = arr(&js["table"]["table"]);
                    let mut bad = vec![];
                    for idp in 0..n.min(tbl.len()) {
                        let id: usize = (0..e).filter(|b| idp >> b & 1 == 1).map(|b| 1usize << perm[b]).sum();
                        let t = &tbl[idp];
                        let (xl, xs, xw) = (as_i64(&inst["l"][id]), inst["s"][id].as_bool().unwrap(), as_i64(&inst["w"][id]) as f64 / wd);
                        if as_i64(&t["loop_number"]) != xl || t["mass_momentum_spanning"].as_bool().unwrap() != xs || t["generalized_dod"].as_f64().unwrap() != xw {
                            bad.push(json!({"id_permuted": idp, "id": id, "code": t, "spec": {"l": xl, "s": xs, "w": xw}}));
                        }
                    }
                    if !bad.is_empty() { sm.violation("C03", format!("{} table entries of the edge-permuted twin (built right after the original) differ from the specification", bad.len()), ident("permuted"), json!({"perm": perm, "entries": bad})); }
                }
            }
        }
    }
    // (b) the bit-identical graph for another D
    let d2 = g.d % 6 + 1;
    let wsum = |id: usize| -> f64 { (0..e).filter(|b| id >> b & 1 == 1).map(|b| base.weights[b]).sum() };
    let l_of = |id: usize| as_i64(&inst["l"][id]) as f64;
    let dod2 = wsum(n - 1) - d2 as f64 / 2.0 * l_of(n - 1);
    let gd2: Vec<f64> = (0..n).map(|id| if id == 0 { 1.0 } else { wsum(id) - d2 as f64 / 2.0 * l_of(id) - if inst["s"][id].as_bool().unwrap() { dod2 } else { 0.0 } }).collect();
    let div2 = (1..n - 1).any(|id| gd2[id] <= 0.0);
    let out = build(&base, vec![vec![0isize; lnum]; e], d2);
    sm.count("history_other_d_builds");
    match &out {
        BuildOut::Panic(m) => sm.violation("C05", format!("build_sampler panicked for the same graph in D = {}: {}", d2, m), ident("other_d"), json!({"D2": d2})),
        BuildOut::Err(_) => if !div2 { sm.violation("C05", format!("the bit-identical graph built for D = {} right after D = {} is rejected although no proper subset is divergent there", d2, g.d), ident("other_d"), json!({"D2": d2})) },
        BuildOut::Ok(s) => {
            if div2 { sm.violation("C05", format!("the bit-identical graph built for D = {} right after D = {} is accepted although a proper subset is divergent there", d2, g.d), ident("other_d"), json!({"D2": d2})); }
            else {
                let js = s.to_json();
                let tbl = arr(&js["table"]["table"]);
                let bad: Vec<Value> = (0..n.min(tbl.len())).filter(|&id| tbl[id]["generalized_dod"].as_f64().unwrap() != gd2[id]).map(|id| json!({"id": id, "code": tbl[id]["generalized_dod"], "exact": gd2[id]})).collect();
                if !bad.is_empty() || s.dod() != dod2 || s.d() != d2 {
                    sm.violation("C03", format!("the table of the bit-identical graph built for D = {} right after D = {} is not the table for D = {}", d2, g.d, d2), ident("other_d"), json!({"D2": d2, "entries": bad, "dod": s.dod(), "dod_exact": dod2}));
                }
            }
        }
    }
}

pub fn run(lines: &[Value], opts: &TableOpts, other_process_hashes: Option<Vec<String>>) -> Summary {
    let mut sm = Summary::default();
    for (i, inst) in lines.iter().enumerate() {
        sm.evaluations += 1;
        if (i as u64 + opts.seed) % 2 == 0 || lines.len() == 1 { reweighted(inst, i as u64, opts, &mut sm); }
        if (i as u64 + opts.seed) % 3 == 0 || lines.len() == 1 { history_variants(inst, i as u64, opts, &mut sm); }
        let (g, map, _swap, out) = build_for(inst, i as u64 + opts.base_idx, opts);
        let e = g.ne();
        let div = inst["div"].as_bool().unwrap();
        let near = inst["near"].as_bool().unwrap_or(false); // some omega within 1e-9 of 0 (non-dyadic weights only)
        let ident = json!({"line": inst, "labels": map, "idx": i as u64 + opts.base_idx});
        if i < 3 {
            sm.sample(json!({"g": inst["g"], "div": div, "l": inst["l"], "s": inst["s"], "w": inst["w"], "j": inst["j"]}));
        }
        if div { sm.count("divergent") } else { sm.count("accepted_by_spec") }
        match &out {
            BuildOut::Panic(m) => {
                sm.violation("C05", format!("build_sampler panicked: {}", m), ident.clone(), json!({}));
                continue;
            }
            BuildOut::Err(msg) => {
                if !div && !near {
                    sm.violation("C05", "build_sampler returned Err for a graph without divergent proper subset".into(), ident.clone(), json!({"err": msg}));
                }
                // second build: same verdict
                if let BuildOut::Ok(_) = build_for(inst, i as u64 + opts.base_idx, opts).3 {
                    sm.violation("C05", "build verdict not deterministic".into(), ident.clone(), json!({}));
                }
                continue;
            }
            BuildOut::Ok(_) => {
                if div && !near {
                    sm.violation("C05", "build_sampler returned Ok although a non-empty proper subset has omega <= 0".into(), ident.clone(), json!({}));
                    continue;
                }
                if div { continue; }
            }
        }
        let s: &Box<dyn DynSampler> = match &out { BuildOut::Ok(s) => s, _ => unreachable!() };
        let js = s.to_json();
        let tbl = arr(&js["table"]["table"]);
        let n = 1usize << e;
        let exact = g.exact_weights();
        let wd = g.wd as f64;
        let nontrivial = inst["L"].as_i64().unwrap() >= 1 && arr(&inst["s"]).iter().any(|b| b.as_bool().unwrap());
        if nontrivial { sm.nontrivial += 1; }

        // ---------------- C03
        if tbl.len() != n {
            sm.violation("C03", format!("table has {} entries, expected {}", tbl.len(), n), ident.clone(), json!({}));
            continue;
        }
        let mut bad03 = vec![];
        for id in 0..n {
            let t = &tbl[id];
            let (l, sp, gd) = (as_i64(&t["loop_number"]), t["mass_momentum_spanning"].as_bool().unwrap(), t["generalized_dod"].as_f64().unwrap());
            let (xl, xs, xw) = (as_i64(&inst["l"][id]), inst["s"][id].as_bool().unwrap(), as_i64(&inst["w"][id]) as f64 / wd);
            let wok = if exact { gd == xw } else { (gd - xw).abs() <= 1e-12 * (1.0 + xw.abs()) };
            if l != xl || sp != xs || !wok {
                bad03.push(json!({"id": id, "code": {"l": l, "s": sp, "w": gd}, "spec": {"l": xl, "s": xs, "w": xw}}));
            }
        }
        sm.add("entries_compared", n as i64);
        if !bad03.is_empty() {
            sm.violation("C03", format!("{} table entries differ from the specification", bad03.len()), ident.clone(), json!({"entries": bad03}));
        }
        let xdod = as_i64(&inst["dod"]) as f64 / wd;
        let dod_ok = if exact { s.dod() == xdod } else { (s.dod() - xdod).abs() <= 1e-12 * (1.0 + xdod.abs()) };
        let mut rep = vec![];
        if !dod_ok { rep.push(format!("get_dod {} != {}", s.dod(), xdod)); }
        if as_i64(&js["table"]["tropical_graph"]["num_loops"]) != as_i64(&inst["L"]) { rep.push("num_loops".into()); }
        if s.num_edges() != e { rep.push(format!("get_num_edges {} != {}", s.num_edges(), e)); }
        if s.weights() != g.weights() { rep.push("iter_edge_weights".into()); }
        if s.dim() != as_usize(&inst["dim"]) { rep.push(format!("get_dimension {} != {}", s.dim(), inst["dim"])); }
        if as_usize(&js["table"]["dimension"]) != g.d { rep.push("dimension field".into()); }
        if !rep.is_empty() {
            sm.violation("C03", format!("reported quantities disagree with the graph: {:?}", rep), ident.clone(), json!({}));
        }

        // ---------------- C04 / C05 (J finite positive)
        let jt = arr(&inst["j"]);
        let jcode: Vec<f64> = tbl.iter().map(|t| t["j_function"].as_f64().unwrap_or(f64::NAN)).collect();
        let gdcode: Vec<f64> = tbl.iter().map(|t| t["generalized_dod"].as_f64().unwrap()).collect();
        if jcode.iter().any(|j| !(j.is_finite() && *j > 0.0)) {
            sm.violation("C05", "accepted graph has a J value that is not finite and positive".into(), ident.clone(), json!({"j": jcode}));
        }
        let mut bad04 = vec![];
        let mut ovf = false;
        for id in 0..n {
            let (nn, dd) = (as_i64(&jt[id][0]), as_i64(&jt[id][1]));
            if dd == 0 { ovf = true; continue; }
            let x = nn as f64 / dd as f64;
            let tol = 64.0 * (e.max(1) as f64) * f64::EPSILON * x.abs();
            if !((jcode[id] - x).abs() <= tol) {
                bad04.push(json!({"id": id, "code": jcode[id], "spec": [nn, dd]}));
            }
        }
        if ovf { sm.count("j_rational_overflow_instances"); }
        // recursion re-evaluated on the stored doubles (covers OVF instances too)
        for id in 0..n {
            let want = if id == 0 { 1.0 } else {
                (0..e).filter(|b| id >> b & 1 == 1).map(|b| { let sub = id ^ (1 << b); jcode[sub] / gdcode[sub] }).sum::<f64>()
            };
            if !((jcode[id] - want).abs() <= 16.0 * e as f64 * f64::EPSILON * want.abs()) {
                bad04.push(json!({"id": id, "code": jcode[id], "recursion_on_stored": want}));
            }
        }
        if !bad04.is_empty() {
            sm.violation("C04", format!("{} J entries violate the recursion / exact value", bad04.len()), ident.clone(), json!({"entries": bad04}));
        }
        // cached factor: I_tr * Gamma(dod)/prod Gamma(w) * pi^(D L/2)
        let cf = js["table"]["cached_factor"].as_f64().unwrap_or(f64::NAN);
        if xdod > 0.0 {
            let (nn, dd) = (as_i64(&jt[n - 1][0]), as_i64(&jt[n - 1][1]));
            let itr = if dd != 0 { nn as f64 / dd as f64 } else { jcode[n - 1] };
            let lg = ln_gamma(xdod) - g.weights().iter().map(|&w| ln_gamma(w)).sum::<f64>();
            let want = itr * lg.exp() * std::f64::consts::PI.powf((g.d as i64 * as_i64(&inst["L"])) as f64 / 2.0);
            sm.count("cached_factor_checked");
            if !(rel_err(cf, want) <= 1e-11) {
                sm.violation("C04", format!("cached normalisation {} != I_tr Gamma(dod)/prod Gamma(w) pi^(DL/2) = {}", cf, want), ident.clone(), json!({}));
            }
        } else {
            sm.count("dod_nonpositive_cached_factor_skipped");
        }
        // probabilities sum to one on the stored doubles
        for id in 1..n {
            let sum: f64 = (0..e).filter(|b| id >> b & 1 == 1).map(|b| { let sub = id ^ (1 << b); jcode[sub] / jcode[id] / gdcode[sub] }).sum();
            if !((sum - 1.0).abs() <= 64.0 * e as f64 * f64::EPSILON) {
                sm.violation("C04", format!("edge probabilities of subset {} sum to {}", id, sum), ident.clone(), json!({}));
                break;
            }
        }

        // ---------------- C05 determinism: rebuild, compare serialisation
        if let BuildOut::Ok(s2) = build_for(inst, i as u64 + opts.base_idx, opts).3 {
            if s2.to_json_string() != s.to_json_string() {
                sm.violation("C05", "two builds of the same graph give different tables".into(), ident.clone(), json!({}));
            }
        } else {
            sm.violation("C05", "second build of the same graph failed".into(), ident.clone(), json!({}));
        }
        if let Some(h) = &other_process_hashes {
            sm.count("cross_process_compared");
            if h.get(i).map(|x| x.as_str()) != Some(&format!("{:016x}", hash_str(&s.to_json_string()))) {
                sm.violation("C05", "table differs between two processes".into(), ident.clone(), json!({}));
            }
        }
    }
    sm
}


/// C05, size limits: chains and bundles of parallel edges with E = 1..max_e, and the documented maximum
/// MAX_EDGES itself, must not panic (Ok or Err are both fine here).
pub fn size_limits(max_e: usize) -> Summary {
    use crate::dynsampler::GraphSpec;
    let mut sm = Summary::default();
    let mut sizes: Vec<usize> = (1..=max_e).collect();
    sizes.push(momtrop::MAX_EDGES);
    for e in sizes {
        for shape in ["parallel", "chain"] {
            if e > 24 && e != momtrop::MAX_EDGES { continue; }
            // path-like graphs: the work-list of get_connected_components grows geometrically (about 3^E
            // entries), 14 edges already need gigabytes; explored up to 9 edges only (DESIGN.md section 11)
            if shape == "chain" && e > 9 { continue; }
            let edges: Vec<(u8, u8)> = (0..e).map(|i| if shape == "parallel" { (0, 1) } else { (i as u8, i as u8 + 1) }).collect();
            let gs = GraphSpec { edges, mass: vec![shape == "parallel"; e], weights: vec![if shape == "parallel" { 2.0 } else { 0.5 }; e],
                                 ext: if shape == "parallel" { vec![0, 1] } else { vec![0, e as u8] } };
            let t = std::time::Instant::now();
            let out = build(&gs, vec![vec![0isize; 1]; e], 3);
            sm.evaluations += 1;
            sm.count(&format!("size_{}_{}", shape, out.name()));
            sm.max("largest_E_built", if matches!(out, BuildOut::Ok(_) | BuildOut::Err(_)) { e as i64 } else { 0 });
            if let BuildOut::Panic(m) = &out {
                sm.violation("C05", format!("build_sampler panicked for a {} graph with {} edges (documented maximum {}): {}", shape, e, momtrop::MAX_EDGES, m.chars().take(120).collect::<String>()),
                             json!({"size_limit": {"shape": shape, "edges": e}}), json!({"edges": e as i64, "shape": shape}));
            }
            if t.elapsed().as_secs() > 60 { break; }
        }
    }
    sm
}
