//! record-gamma (mode V, C12): outcome class, accuracy against an independent regularised incomplete
//! gamma function, monotonicity; events validated by spec/trace/Trace_Gamma.tla.

use crate::dynsampler::panic_msg;
use crate::inst::*;
use rand::Rng;
use serde_json::{json, Value};
use std::panic::{catch_unwind, AssertUnwindSafe};

/// regularised lower incomplete gamma P(a, x), independent of statrs: series for x < a + 1,
/// modified Lentz continued fraction for Q otherwise.  Trusted base of the accuracy clause of C12.
pub fn reg_lower_gamma(a: f64, x: f64) -> f64 {
    if x <= 0.0 { return 0.0; }
    if x.is_infinite() { return 1.0; }
    let lg = ln_gamma(a);
    if x < a + 1.0 {
        let mut ap = a; let mut sum = 1.0 / a; let mut del = sum;
        for _ in 0..2000 {
            ap += 1.0; del *= x / ap; sum += del;
            if del.abs() < sum.abs() * 1e-17 { break; }
        }
        (sum.ln() - x + a * x.ln() - lg).exp()
    } else {
        let tiny = 1e-300;
        let mut b = x + 1.0 - a; let mut c = 1.0 / tiny; let mut d = 1.0 / b; let mut h = d;
        for i in 1..2000 {
            let an = -(i as f64) * (i as f64 - a);
            b += 2.0;
            d = an * d + b; if d.abs() < tiny { d = tiny; }
            c = b + an / c; if c.abs() < tiny { c = tiny; }
            d = 1.0 / d;
            let del = d * c; h *= del;
            if (del - 1.0).abs() < 1e-16 { break; }
        }
        1.0 - (-x + a * x.ln() - lg).exp() * h
    }
}

pub fn call(a: f64, p: f64) -> (String, f64) {
    match catch_unwind(AssertUnwindSafe(|| momtrop::gamma::inverse_gamma_lr(&a, &p, 50, &5.0))) {
        Ok(Ok(v)) => {
            let c = if v.is_nan() { "OkNan" } else if v.is_infinite() { "OkInf" } else if v == 0.0 { "OkZero" } else if v < 0.0 { "OkNeg" } else { "OkPos" };
            (c.to_string(), v)
        }
        Ok(Err(_)) => ("Err".to_string(), f64::NAN),
        Err(p) => (format!("Panic: {}", panic_msg(p).chars().take(100).collect::<String>()), f64::NAN),
    }
}

pub fn shapes(seed: u64, n: usize) -> Vec<f64> {
    let mut rng = rng_for(seed, 99);
    let mut a: Vec<f64> = (0..n).map(|i| 0.05 * (2000.0f64).powf(i as f64 / (n - 1).max(1) as f64)).collect();
    for k in [0.0, 0.5, 1.0, 2.0] { a.push(1.0 + 1e-8 * k); a.push(1.0 - 1e-8 * k); }
    a.extend([1.0 + 1.0e-6, 1.0 - 1.0e-6, 1.0 + 3e-7, 1.0 - 5e-8, 1.0 + 5e-8]);
    for q in 1..=16 { a.push(q as f64 / 4.0); }
    for t in 1..=12 { a.push(t as f64 / 3.0); }
    a.extend([0.05, 0.1, 0.29999, 0.3, 0.30001, 0.99999, 1.00001, 100.0, 99.5, 50.0]);
    for _ in 0..n / 2 { a.push(10f64.powf(rng.gen_range(-1.3..2.0))); }
    a.retain(|x| (0.05..=100.0).contains(x));
    a
}

pub fn probs(seed: u64, a_idx: usize, dense: bool, a: f64) -> Vec<f64> {
    let mut rng = rng_for(seed, 1000 + a_idx as u64);
    let mut p = vec![0.0, f64::from_bits(1), f64::MIN_POSITIVE, 1e-300, 1e-200, 1e-100];
    let step = if dense { 1 } else { 4 };
    for k in (1..=53).step_by(step) { p.push(2f64.powi(-k)); p.push(1.0 - 2f64.powi(-k)); }
    for k in (60..1074).step_by(if dense { 50 } else { 200 }) { p.push(2f64.powi(-k)); }
    let grid = if dense { 200 } else { 40 };
    for k in 1..grid { p.push(k as f64 / grid as f64); }
    for _ in 0..grid / 2 { p.push(rng.gen_range(0.0..1.0)); p.push(10f64.powf(rng.gen_range(-16.0..0.0))); }
    // narrow bands around landmarks of the distribution (quantile = mean, = mode, = 3 mean): shortcuts and
    // branch switches of quantile algorithms sit there
    for x0 in [a, (a - 1.0).max(1e-3), 3.0 * a, a * (1.0 + 1e-6), a * (1.0 - 1e-6), 0.5 * a, 2.0 * a] {
        let pc = reg_lower_gamma(a, x0);
        for k in [-9.0, -5.0, -2.0, -1.0, -0.3, 0.0, 0.3, 1.0, 2.0, 5.0, 9.0] { p.push(pc + k * 1e-7); }
    }
    p.retain(|x| (0.0..1.0).contains(x));
    p.sort_by(|a, b| a.partial_cmp(b).unwrap());
    p.dedup();
    p
}

pub fn record(seed: u64, nshapes: usize, dense: bool, trace_path: &str) -> Summary {
    use std::io::Write;
    let mut sm = Summary::default();
    let mut f = std::io::BufWriter::new(std::fs::File::create(trace_path).unwrap());
    for (ai, a) in shapes(seed, nshapes).into_iter().enumerate() {
        let p_small = reg_lower_gamma(a, 1e-13);
        let mut prev: Option<(f64, f64)> = None; // (p, P(a, lambda)) of the last Ok value
        for p in probs(seed, ai, dense, a) {
            let (cls, lam) = call(a, p);
            sm.evaluations += 1;
            let indomain = p >= p_small * (1.0 + 1e-6) && p > 0.0;
            let mut acc = true;
            let mut mono = true;
            let mut pl = f64::NAN;
            if cls == "OkPos" {
                pl = reg_lower_gamma(a, lam);
                if indomain { acc = (pl - p).abs() <= 2e-8; sm.nontrivial += 1; }
                if let Some((_pp, ppl)) = prev { if indomain { mono = pl >= ppl - 4e-8; } }
                if indomain { prev = Some((p, pl)); }
                sm.max("worst_abs_err_x1e16", if indomain { ((pl - p).abs() * 1e16) as i64 } else { 0 });
            }
            sm.count(&format!("class_{}", cls.split(':').next().unwrap()));
            if indomain { sm.count("in_domain"); }
            let ev = json!({"ev": "Gamma", "a": hexf(a), "p": hexf(p), "cls": cls, "indomain": indomain, "acc": acc, "mono": mono,
                            "note": format!("a={:e} p={:e} lambda={:e} P={:e}", a, p, lam, pl)});
            if sm.samples.len() < 3 && indomain { sm.sample(ev.clone()); }
            writeln!(f, "{}", ev).unwrap();
            sm.events += 1;
        }
    }
    sm
}

/// re-run recorded events (replay)
pub fn replay(lines: &[Value], trace_path: &str) -> Summary {
    use std::io::Write;
    let mut sm = Summary::default();
    let mut f = std::io::BufWriter::new(std::fs::File::create(trace_path).unwrap());
    for e in lines {
        let (a, p) = (unhexf(e["a"].as_str().unwrap()), unhexf(e["p"].as_str().unwrap()));
        let (cls, lam) = call(a, p);
        let indomain = p >= reg_lower_gamma(a, 1e-13) * (1.0 + 1e-6) && p > 0.0;
        let acc = if cls == "OkPos" && indomain { (reg_lower_gamma(a, lam) - p).abs() <= 2e-8 } else { true };
        let ev = json!({"ev": "Gamma", "a": hexf(a), "p": hexf(p), "cls": cls, "indomain": indomain, "acc": acc, "mono": true, "note": ""});
        writeln!(f, "{}", ev).unwrap();
        sm.evaluations += 1; sm.events += 1;
    }
    sm
}
