//! replay-sample: binding mode R for the sample-level properties C02, C06-C13.
//! Each input line (spec/gen/Gen_Routing.tla) is an accepted connected graph with masses, several
//! loop-momentum routings of the same kinematics, the exact table, and U / F as monomial lists.
//! The real sampler is driven into every sector (steered with the specification's exact cumulative
//! probabilities) and every observable is compared with the specification's structure evaluated
//! at the observed doubles.

use crate::dynsampler::*;
use crate::inst::*;
use rand::Rng;
use serde_json::{json, Value};

pub struct SampleOpts {
    pub stab_all: bool,
    pub seed: u64,
    pub base_idx: u64,
    pub points_per_line: usize,
    pub boundary: bool,
}

pub struct Line {
    pub g: InstGraph,
    pub e: usize,
    pub l: usize,
    pub d: usize,
    pub dod: f64,
    pub m: Vec<f64>,
    pub routings: Vec<(Vec<Vec<isize>>, Vec<Vec<f64>>)>,
    pub utrees: Vec<usize>,
    pub f2: Vec<(f64, usize)>,
    pub fm: Vec<(f64, usize, usize)>,
    pub nt: f64,
    pub cmin: f64,
    pub csum: f64,
    pub generic: bool,
    pub gd: Vec<f64>,             // omega per id
    pub cum: Vec<Vec<Option<f64>>>, // per id: cumulative sums (None = OVF)
    pub cum_exact: Vec<Vec<(i64, i64)>>,
    pub j_exact: Vec<(i64, i64)>,
    pub w_units: Vec<i64>,
    pub itr: Option<f64>,
}

impl Line {
    pub fn parse(v: &Value) -> Line {
        let g = InstGraph::parse(&v["g"]);
        let e = g.ne();
        let wd = g.wd as f64;
        let vecf = |a: &Value| -> Vec<f64> { arr(a).iter().map(|x| as_i64(x) as f64).collect() };
        let n = 1usize << e;
        let jt = arr(&v["j"]);
        let (jn, jd) = (as_i64(&jt[n - 1][0]), as_i64(&jt[n - 1][1]));
        Line {
            e,
            l: as_usize(&v["L"]),
            d: g.d,
            dod: as_i64(&v["dod"]) as f64 / wd,
            m: vecf(&v["m"]),
            routings: arr(&v["routings"])
                .iter()
                .map(|r| {
                    (
                        arr(&r["sig"]).iter().map(|row| arr(row).iter().map(|x| as_i64(x) as isize).collect()).collect(),
                        arr(&r["p"]).iter().map(|row| vecf(row)).collect(),
                    )
                })
                .collect(),
            utrees: arr(&v["utrees"]).iter().map(as_usize).collect(),
            f2: arr(&v["f2"]).iter().map(|t| (as_i64(&t[0]) as f64, as_usize(&t[1]))).collect(),
            fm: arr(&v["fm"]).iter().map(|t| (as_i64(&t[0]) as f64, as_usize(&t[1]), as_usize(&t[2]) - 1)).collect(),
            nt: as_i64(&v["NT"]) as f64,
            cmin: as_i64(&v["cmin"]) as f64,
            csum: as_i64(&v["csum"]) as f64,
            generic: v["generic"].as_bool().unwrap_or(false),
            gd: arr(&v["w"]).iter().map(|x| as_i64(x) as f64 / wd).collect(),
            cum: arr(&v["cum"])
                .iter()
                .map(|c| arr(c).iter().map(|r| { let (a, b) = (as_i64(&r[0]), as_i64(&r[1])); if b == 0 { None } else { Some(a as f64 / b as f64) } }).collect())
                .collect(),
            cum_exact: arr(&v["cum"]).iter().map(|c| arr(c).iter().map(|r| (as_i64(&r[0]), as_i64(&r[1]))).collect()).collect(),
            j_exact: jt.iter().map(|r| (as_i64(&r[0]), as_i64(&r[1]))).collect(),
            w_units: arr(&v["w"]).iter().map(as_i64).collect(),
            itr: if jd != 0 { Some(jn as f64 / jd as f64) } else { None },
            g,
        }
    }
    /// The same graph with other weights: loop numbers, spanning flags, trees and forests do not depend on the
    /// weights, so omega, J, the cumulative edge probabilities and I_tr follow exactly (BigRational on the exact
    /// values of the doubles).  None when the re-weighted graph is not comfortably accepted.
    pub fn reweight(&self, inst: &Value, w: &[f64]) -> Option<Line> {
        use num::rational::BigRational as Q;
        use num::{One, Signed, ToPrimitive, Zero};
        let e = self.e;
        let n = 1usize << e;
        let wq: Vec<Q> = w.iter().map(|&x| Q::from_float(x).unwrap()).collect();
        let half_d = Q::new((self.d as i64).into(), 2.into());
        let lq = |id: usize| Q::from_integer(as_i64(&inst["l"][id]).into());
        let sum = |id: usize| (0..e).filter(|b| id >> b & 1 == 1).fold(Q::zero(), |a, b| a + &wq[b]);
        let dod = sum(n - 1) - &half_d * lq(n - 1);
        let gd: Vec<Q> = (0..n).map(|id| if id == 0 { Q::one() } else {
            sum(id) - &half_d * lq(id) - if inst["s"][id].as_bool().unwrap() { dod.clone() } else { Q::zero() } }).collect();
        let q2f = |q: &Q| -> f64 {
            let (nb, db) = (q.numer().bits() as i64, q.denom().bits() as i64);
            let shift = (nb - db) - 60;
            let (nn, dd) = if shift > 0 { (q.numer().clone(), q.denom().clone() << shift as usize) } else { (q.numer().clone() << (-shift) as usize, q.denom().clone()) };
            (&nn / &dd).to_f64().unwrap_or(f64::NAN) * 2f64.powi(shift as i32)
        };
        let wabs: f64 = w.iter().sum::<f64>() + self.d as f64 / 2.0 * self.l as f64;
        // comfortably accepted: every proper omega and dod well above the rounding of the code's own omega
        // ... and, where omega is a DIFFERENCE (a loop or the spanning term is subtracted), large enough that the rounding
        // eps W of the code's own omega is below 1e-10 of it: the exponents 1/omega and the edge probabilities of the code then
        // agree with the exact ones far inside every guard band used below.  A sum of positive weights (no loop, not spanning)
        // is exact to a few ulp whatever its size, so tiny omegas of that kind stay in.
        if !dod.is_positive() || q2f(&dod) < 1e10 * f64::EPSILON * wabs { return None; }
        for id in 1..n - 1 {
            let cancels = as_i64(&inst["l"][id]) > 0 || inst["s"][id].as_bool().unwrap_or(false);
            if !gd[id].is_positive() || (cancels && q2f(&gd[id]) < 1e10 * f64::EPSILON * wabs) { return None; }
        }
        let mut jq: Vec<Q> = vec![Q::one(); n];
        for id in 1..n { jq[id] = (0..e).filter(|b| id >> b & 1 == 1).fold(Q::zero(), |a, b| { let sub = id ^ (1 << b); a + &jq[sub] / &gd[sub] }); }
        let mut cum: Vec<Vec<Option<f64>>> = vec![vec![]; n];
        for id in 1..n {
            if id.count_ones() < 2 { continue; }
            let mut acc = Q::zero();
            for b in (0..e).filter(|b| id >> b & 1 == 1) {
                let sub = id ^ (1 << b);
                acc += &jq[sub] / (&jq[id] * &gd[sub]);
                cum[id].push(Some(q2f(&acc)));
            }
        }
        let mut g = self.g.clone();
        g.wf = Some(w.to_vec());
        Some(Line {
            g, e, l: self.l, d: self.d, dod: q2f(&dod), m: self.m.clone(), routings: self.routings.clone(), utrees: self.utrees.clone(),
            f2: self.f2.clone(), fm: self.fm.clone(), nt: self.nt, cmin: self.cmin, csum: self.csum, generic: self.generic,
            gd: gd.iter().map(|q| q2f(q)).collect(), cum, cum_exact: vec![vec![]; n], j_exact: vec![(0, 0); n], w_units: vec![0; n],
            itr: Some(q2f(&jq[n - 1])),
        })
    }
    fn mono(&self, x: &[f64], id: usize) -> f64 {
        (0..self.e).filter(|b| id >> b & 1 == 1).map(|b| x[b]).product()
    }
    /// U(x) from spanning trees (sum of positive monomials)
    pub fn u_poly(&self, x: &[f64]) -> f64 {
        self.utrees.iter().map(|&id| self.mono(x, id)).sum()
    }
    pub fn u_max(&self, x: &[f64]) -> f64 {
        self.utrees.iter().map(|&id| self.mono(x, id)).fold(0.0, f64::max)
    }
    /// F(x) from 2-forests and masses (sum of non-negative monomials)
    pub fn f_poly(&self, x: &[f64]) -> f64 {
        self.f2.iter().map(|&(c, id)| c * self.mono(x, id)).sum::<f64>()
            + self.fm.iter().map(|&(c, id, e)| c * self.mono(x, id) * x[e]).sum::<f64>()
    }
    pub fn f_max(&self, x: &[f64]) -> f64 {
        let a = self.f2.iter().filter(|t| t.0 != 0.0).map(|&(_, id)| self.mono(x, id)).fold(0.0, f64::max);
        let b = self.fm.iter().filter(|t| t.0 != 0.0).map(|&(_, id, e)| self.mono(x, id) * x[e]).fold(0.0, f64::max);
        a.max(b)
    }
}

fn half_d_of(line: &Line) -> f64 { line.d as f64 / 2.0 }

pub(crate) fn getlog<'a>(log: &'a [(String, Value)], key: &str) -> Option<&'a Value> {
    log.iter().find(|(k, _)| k == key).map(|(_, v)| v)
}
pub(crate) fn vf(v: &Value) -> Vec<f64> {
    arr(v).iter().map(|x| x.as_f64().unwrap_or(f64::NAN)).collect()
}

/// removal order from the unrescaled parameters (strictly decreasing along the order when xi < 1)
pub fn order_of(xun: &[f64]) -> Option<Vec<usize>> {
    let mut idx: Vec<usize> = (0..xun.len()).collect();
    idx.sort_by(|&a, &b| xun[b].partial_cmp(&xun[a]).unwrap_or(std::cmp::Ordering::Equal));
    for w in idx.windows(2) {
        if !(xun[w[0]] > xun[w[1]]) {
            return None;
        }
    }
    Some(idx)
}

pub(crate) fn inv_f64(a: &[Vec<f64>]) -> Option<Vec<Vec<f64>>> {
    let n = a.len();
    let mut m: Vec<Vec<f64>> = a.iter().enumerate().map(|(i, r)| { let mut r = r.clone(); r.extend((0..n).map(|j| if i == j { 1.0 } else { 0.0 })); r }).collect();
    for c in 0..n {
        if m.iter().flatten().any(|v| !v.is_finite()) { return None; }
        let p = (c..n).max_by(|&i, &j| m[i][c].abs().partial_cmp(&m[j][c].abs()).unwrap_or(std::cmp::Ordering::Equal))?;
        if m[p][c] == 0.0 || !m[p][c].is_finite() { return None; }
        m.swap(c, p);
        let d = m[c][c];
        for j in 0..2 * n { m[c][j] /= d; }
        for i in 0..n {
            if i != c {
                let f = m[i][c];
                if f != 0.0 { for j in 0..2 * n { m[i][j] -= f * m[c][j]; } }
            }
        }
    }
    Some(m.into_iter().map(|r| r[n..].to_vec()).collect())
}
pub(crate) fn norm1(a: &[Vec<f64>]) -> f64 {
    let n = a.len();
    (0..n).map(|j| (0..n).map(|i| a[i][j].abs()).sum::<f64>()).fold(0.0, f64::max)
}

/// steering coordinate for taking the `pos`-th (0-based) edge of subgraph `id`: mid-interval of the exact cumulative sums
fn steer_u(line: &Line, id: usize, pos: usize) -> Option<f64> {
    let c = &line.cum[id];
    let hi = c.get(pos).copied().flatten()?;
    let lo = if pos == 0 { 0.0 } else { c[pos - 1]? };
    if hi - lo < 4e-6 { return None; }
    Some(0.5 * (lo + hi))
}

pub struct Point {
    pub x: Vec<f64>,
    pub want_order: Option<Vec<usize>>, // order the steering aims at (None: not steered)
}

pub(crate) fn make_point(line: &Line, dim: usize, order: Option<&[usize]>, rng: &mut impl Rng, extreme: u32) -> Point {
    let e = line.e;
    let mut x = vec![0.0; dim];
    // extreme >= 100: a "spread" point - at one step the parameters drop by 10^-(extreme-100), so that L has a
    // condition number of about that size (exercises the pivots of the Cholesky factor far from 1)
    let spread_step = if extreme >= 100 && e >= 2 { Some(rng.gen_range(0..e - 1)) } else { None };
    let mut want = order.map(|o| o.to_vec());
    let mut id = (1usize << e) - 1;
    for i in 0..dim {
        if i < 2 * e - 2 && i % 2 == 0 {
            let k = i / 2;
            let members: Vec<usize> = (0..e).filter(|b| id >> b & 1 == 1).collect();
            match order {
                Some(o) => {
                    let pos = members.iter().position(|&b| b == o[k]).unwrap();
                    match steer_u(line, id, pos) {
                        Some(u) => x[i] = u,
                        None => { x[i] = rng.gen_range(0.0..1.0); want = None; }
                    }
                    id ^= 1 << o[k];
                }
                None => x[i] = rng.gen_range(0.0..1.0),
            }
        } else if i < 2 * e - 2 && spread_step == Some(i / 2) {
            // xi^(1/omega) = 10^-r  with omega of the graph left after this removal (id has already been updated)
            let r = (extreme - 100) as f64;
            let om = if order.is_some() { line.gd[id] } else { 1.0 };
            x[i] = 10f64.powf(-r * om).max(1e-300);
        } else if i < 2 * e - 2 {
            x[i] = match extreme {
                1 => [0.5, 0.25, 0.75, 1e-3, 0.999][rng.gen_range(0..5)],
                2 => [1e-6, 1.0 - 1e-9, 0.5, 1e-12, 0.0, 1e-300][rng.gen_range(0..6)],
                _ => rng.gen_range(0.02..0.98),
            };
        } else if i == 2 * e - 2 {
            x[i] = match extreme { 2 => [1e-9, 0.5, 1.0 - 1e-9, 0.999, 0.0, f64::EPSILON / 2.0, 2f64.powi(-60), 1.0 - f64::EPSILON / 2.0, 1.0 - f64::EPSILON][rng.gen_range(0..9)], _ => rng.gen_range(0.01..0.99) };
        } else {
            x[i] = match extreme {
                2 => [f64::MIN_POSITIVE, 1e-300, 1e-9, 0.5, 1.0 - f64::EPSILON / 2.0, 0.25, 0.75, 0.0][rng.gen_range(0..8)],
                _ => rng.gen_range(1e-6..1.0 - 1e-6),
            };
        }
    }
    if order.is_some() && want.is_none() { /* steering impossible (OVF or narrow interval) */ }
    Point { x, want_order: want }
}

fn permutations(n: usize) -> Vec<Vec<usize>> {
    fn rec(cur: &mut Vec<usize>, used: &mut Vec<bool>, n: usize, out: &mut Vec<Vec<usize>>) {
        if cur.len() == n { out.push(cur.clone()); return; }
        for i in 0..n { if !used[i] { used[i] = true; cur.push(i); rec(cur, used, n, out); cur.pop(); used[i] = false; } }
    }
    let mut out = vec![];
    rec(&mut vec![], &mut vec![false; n], n, &mut out);
    out
}

struct Ctx<'a> {
    line: &'a Line,
    inst: &'a Value,
    idx: u64,
    sm: &'a mut Summary,
}
impl<'a> Ctx<'a> {
    fn viol(&mut self, prop: &str, what: String, routing: usize, x: &[f64], detail: Value) {
        let ident = json!({"line": self.inst, "idx": self.idx, "routing": routing, "x": x.iter().map(|v| hexf(*v)).collect::<Vec<_>>()});
        self.sm.violation(prop, what, ident, detail);
    }
}

fn close(a: f64, b: f64, rel: f64) -> bool {
    if a == b { return true; }
    if !a.is_finite() || !b.is_finite() { return false; }
    (a - b).abs() <= rel * a.abs().max(b.abs())
}

/// all checks on one (routing, point); returns (u, v, jac) for the routing-independence comparison
fn check_point(cx: &mut Ctx, s: &dyn DynSampler, cached_spec: Option<f64>, ri: usize, pt: &Point, stab: Option<f64>) -> Option<(f64, f64, f64, f64)> {
    let line = cx.line;
    let (e, l, d) = (line.e, line.l, line.d);
    let (sig, p) = &line.routings[ri];
    let ed: EdgeData<f64> = (0..e).map(|i| (if line.m[i] != 0.0 || (i + ri) % 2 == 0 { Some(line.m[i]) } else { None }, p[i].clone())).collect();
    // every other point carries two surplus coordinates (C14: coordinates beyond get_dimension() are ignored): a defect that
    // shifts the reads then shows as a wrong value under the property it breaks, not only as an out-of-bounds panic
    let surplus = pt.x.first().map(|v| v.to_bits() & 1 == 1).unwrap_or(false);
    let out = if surplus {
        let mut xx = pt.x.clone();
        xx.push(0.37109375);
        xx.push(0.8125);
        cx.sm.count("points_with_surplus_coordinates");
        s.sample_f64(&xx, &ed, &Settings::new(stab, true, true))
    } else {
        s.sample_f64(&pt.x, &ed, &Settings::new(stab, true, true))
    };
    cx.sm.evaluations += 1;
    cx.sm.count(&format!("outcome_{}", out.outcome.name()));
    let x = &pt.x;
    match &out.outcome {
        Outcome::Panic(m) => {
            let prop = if m.contains("sample edge") || m.contains("Sampling could not") { "C06" } else { "C14" };
            cx.viol(prop, format!("sample panicked: {}", m), ri, x, json!({}));
            return None;
        }
        Outcome::Ok => {}
        Outcome::ErrGamma => {
            // the Gamma draw failed: then the public quantile of (dod, designated coordinate) must be an error too
            if momtrop::gamma::inverse_gamma_lr(&s.dod(), &x[2 * line.e - 2], 50, &5.0).is_ok() {
                cx.viol("C12", "sample returned GammaError although inverse_gamma_lr(dod, x[2E-2]) is a value".into(), ri, x, json!({}));
            }
            return None;
        }
        _ => { return None; }
    }
    let o = out.obs.as_ref().unwrap();
    let meta = o.meta.as_ref().unwrap();
    if stab.is_some() {
        cx.sm.count("ok_samples_with_stability_test");
        let nan = o.u.is_nan() || meta.det.is_nan() || meta.inverse.iter().chain(meta.q_t.iter()).chain(meta.q_t_inv.iter()).flatten().any(|v| v.is_nan());
        if nan { cx.viol("C16", "a sample returned Ok with NaN in its decomposition although matrix_stability_test is Some(tol)".into(), ri, x, json!({"u": o.u})); }
        if o.u == 0.0 { cx.viol("C16", "a sample returned Ok with a zero determinant".into(), ri, x, json!({})); }
        // Ok only if the L_{2,1} distance between inverse x matrix and the identity is at most tol: recomputed from the
        // returned inverse and the returned L (same formula, f64; slack of a few roundings of the n^3 products)
        if let Some(tol) = stab {
            let (lmx, inv) = (&meta.l_matrix, &meta.inverse);
            let n = lmx.len();
            if !nan && inv.len() == n && n > 0 {
                let mut dist = 0.0;
                for j in 0..n {
                    let mut col = 0.0;
                    for i in 0..n {
                        let mut sacc = 0.0;
                        for k in 0..n { sacc += inv[i][k] * lmx[k][j]; }
                        if i == j { sacc -= 1.0; }
                        col += sacc * sacc;
                    }
                    dist += col.sqrt();
                }
                let absprod: f64 = (0..n).map(|i| (0..n).map(|j| (0..n).map(|k| (inv[i][k] * lmx[k][j]).abs()).sum::<f64>()).fold(0.0, f64::max)).fold(0.0, f64::max);
                cx.sm.count("stability_distance_recomputed");
                if dist.is_finite() && dist > tol + 8.0 * (n * n) as f64 * f64::EPSILON * absprod.max(1.0) {
                    cx.viol("C16", format!("a sample returned Ok with matrix_stability_test = Some({:e}) although |inverse L - 1|_(2,1) = {:e} for the returned inverse and L", tol, dist), ri, x, json!({"tol": tol, "dist": dist}));
                }
            }
        }
    }
    let (xun, xres, utr, vtr) = match (getlog(&out.log, "momtrop_feynman_parameter_no_rescaling"), getlog(&out.log, "momtrop_feynman_parameter"),
                                       getlog(&out.log, "momtrop_u_trop_no_rescaling"), getlog(&out.log, "momtrop_v_trop_no_rescaling")) {
        (Some(a), Some(b), Some(c), Some(dv)) => (vf(a), vf(b), c.as_f64().unwrap_or(f64::NAN), dv.as_f64().unwrap_or(f64::NAN)),
        _ => { cx.sm.count("log_missing"); return None; }
    };
    if xun.len() != e || xres.len() != e { cx.viol("C07", "logged Feynman parameters have the wrong length".into(), ri, x, json!({})); return None; }
    // numerical range: the rescaling factor computed from the specification's tropical monomials must be a
    // normal double, otherwise the point is outside what f64 can represent (parameter spread beyond ~1e-100)
    {
        let um = line.u_max(&xun);
        let fm = line.f_max(&xun);
        let vt = if fm > 0.0 { fm / um } else { 1.0 };
        let target = um.powf(-(d as f64) / 2.0) * vt.powf(-line.dod);
        let sspec = target.powf(1.0 / (d as f64 / 2.0 * l as f64 + line.dod));
        // the same for the tropical values the code logged (for kinematics that are not generic its flag-based v_trop may be far
        // below the largest F monomial with a non-zero coefficient): the documented rescaling formula overflows at such a
        // point whatever the implementation does
        let target_code = utr.powf(-(d as f64) / 2.0) * (1.0 / vtr).powf(line.dod);
        let s_code = target_code.powf(1.0 / (d as f64 / 2.0 * l as f64 + line.dod));
        let code_range_ok = !(utr.is_normal() && vtr.is_normal()) || (target_code.is_normal() && s_code.is_normal() && (1.0 / vtr).powf(line.dod).is_normal() && utr.powf(-(d as f64) / 2.0).is_normal());
        if !(target.is_normal() && sspec.is_normal() && um.is_normal() && xun.iter().all(|v| v.is_normal()) && code_range_ok) {
            cx.sm.count("skipped_range");
            return None;
        }
    }
    let order = order_of(&xun);
    // ------------------------------------------------------------------ C06: steered order is the order taken
    if let (Some(w), Some(ord)) = (&pt.want_order, &order) {
        cx.sm.count("steered_points");
        if w != ord {
            cx.viol("C06", format!("edge choices {:?} differ from the inverse-CDF choice {:?} (coordinates at mid-interval of the exact cumulative sums)", ord, w), ri, x, json!({"xun": xun}));
        }
    }
    let ord = match order { Some(o) => o, None => { cx.sm.count("order_ambiguous"); return None; } };
    // ------------------------------------------------------------------ C07 (i): sector formula
    {
        let mut id = (1usize << e) - 1;
        let mut kappa = 1.0f64;
        let mut bad = vec![];
        // the code's omega is a difference of doubles of size W = sum w + D/2 L + dod: its absolute rounding ~ eps W becomes a
        // relative error eps W / omega of the exponent 1/omega and |ln xi| / omega times that in xi^(1/omega) (it matters for
        // the re-weighted lines, where omega may be as small as 1e-9 W)
        let wsum: f64 = line.g.weights().iter().sum::<f64>() + half_d_of(line) * l as f64 + line.dod.abs();
        let mut amp = 0.0f64;
        for k in 0..e {
            let edge = ord[k];
            if !close(xun[edge], kappa, 1e-12 + amp) { bad.push(json!({"k": k, "edge": edge, "code": xun[edge], "spec": kappa, "tol": 1e-12 + amp})); }
            id ^= 1 << edge;
            if id != 0 {
                let xi = x[2 * k + 1];
                let om = line.gd[id];
                kappa *= xi.powf(1.0 / om);
                amp += xi.ln().abs() / om * (8.0 * f64::EPSILON * wsum / om);
            }
        }
        if !bad.is_empty() { cx.viol("C07", "Feynman parameters do not follow prod_j xi_j^(1/omega(g_j))".into(), ri, x, json!({"bad": bad, "order": ord})); }
    }
    // ------------------------------------------------------------------ C07 (ii): tropical polynomials = largest monomials
    let u_un = line.u_poly(&xun);
    let f_un = line.f_poly(&xun);
    let v_un = f_un / u_un;
    let umax = line.u_max(&xun);
    let fmax = line.f_max(&xun);
    if !close(utr, umax, 1e-12) {
        cx.viol("C07", format!("u_trop before rescaling {} is not the largest monomial of U {}", utr, umax), ri, x, json!({"order": ord, "xun": xun}));
    }
    if line.generic {
        cx.sm.count("generic_points");
        if !close(vtr, fmax / umax, 1e-12) {
            cx.viol("C07", format!("v_trop before rescaling {} is not largest F monomial / largest U monomial = {}", vtr, fmax / umax), ri, x, json!({"order": ord, "xun": xun}));
        }
    }
    // ------------------------------------------------------------------ C07 (iii): common rescaling normalises
    let sc = xres[ord[0]] / xun[ord[0]];
    for i in 0..e {
        if !close(xres[i], sc * xun[i], 1e-13) { cx.viol("C07", "rescaling is not a common factor".into(), ri, x, json!({"xun": xun, "xres": xres})); break; }
    }
    let half_d = d as f64 / 2.0;
    let norm = (sc.powi(l as i32) * utr).powf(half_d) * (sc * vtr).powf(line.dod);
    if !(norm - 1.0).abs().le(&1e-10) {
        cx.viol("C07", format!("after rescaling U_tr^(D/2) V_tr^dod = {} instead of 1", norm), ri, x, json!({"s": sc, "utr": utr, "vtr": vtr}));
    }
    // ------------------------------------------------------------------ C08: L matrix and U
    let lm = &meta.l_matrix;
    let mut lspec = vec![vec![0.0; l]; l];
    let mut labs = vec![vec![0.0; l]; l];
    for i in 0..l { for j in 0..l { for ee in 0..e {
        let t = xres[ee] * (sig[ee][i] * sig[ee][j]) as f64;
        lspec[i][j] += t; labs[i][j] += t.abs();
    } } }
    if lm.len() != l { cx.viol("C08", format!("L matrix has dimension {} for {} loops", lm.len(), l), ri, x, json!({})); return None; }
    for i in 0..l { for j in 0..l {
        if lm[i][j] != lm[j][i] { cx.viol("C08", "L matrix is not symmetric".into(), ri, x, json!({"l": lm})); }
        if !((lm[i][j] - lspec[i][j]).abs() <= 4.0 * e as f64 * f64::EPSILON * labs[i][j]) {
            cx.viol("C08", format!("L[{}][{}] = {} differs from sum_e x_e s_ei s_ej = {}", i, j, lm[i][j], lspec[i][j]), ri, x, json!({}));
        }
    } }
    // condition number of the diagonally scaled matrix D^-1/2 L D^-1/2: the Cholesky factorisation is accurate
    // relative to THIS number (van der Sluis / Demmel), so strongly graded L matrices are still decidable
    let lsc: Vec<Vec<f64>> = (0..l).map(|i| (0..l).map(|j| lspec[i][j] / (lspec[i][i] * lspec[j][j]).sqrt()).collect()).collect();
    let linv = inv_f64(&lsc);
    let cond = linv.as_ref().map(|li| norm1(&lsc) * norm1(li)).unwrap_or(f64::INFINITY);
    let u_res = line.u_poly(&xres);
    let f_res = line.f_poly(&xres);
    let v_res = f_res / u_res;
    // exact cancellation ratio of V:  sum_e x_e (m^2 + p^2) / V
    let a_res: f64 = (0..e).map(|i| xres[i] * (line.m[i] * line.m[i] + p[i].iter().map(|c| c * c).sum::<f64>())).sum();
    let kappa = if v_res > 0.0 { (a_res / v_res).max(1.0) } else { f64::INFINITY };
    // tolerance proportional to the condition number; when it would exceed 10% nothing can be decided
    if !(1e-13 * cond <= 0.1) { cx.sm.count("skipped_cond"); return None; }
    if !close(o.u, u_res, 1e-13 * cond.max(1.0) + 1e-13) {
        cx.viol("C08", format!("u = {} differs from the spanning-tree polynomial {} (cond {:.2e})", o.u, u_res, cond), ri, x, json!({"xres": xres}));
    }
    if meta.det != o.u { cx.viol("C08", "metadata determinant differs from u".into(), ri, x, json!({})); }
    // ------------------------------------------------------------------ C09: V U = F ; u vectors
    for li in 0..l { for c in 0..d {
        let (mut sum, mut abs) = (0.0, 0.0);
        for ee in 0..e { let t = sig[ee][li] as f64 * xres[ee] * p[ee][c]; sum += t; abs += t.abs(); }
        if !((meta.u_vectors[li][c] - sum).abs() <= 4.0 * e as f64 * f64::EPSILON * abs) {
            cx.viol("C09", format!("u_vectors[{}][{}] = {} differs from sum_e s_el x_e p_e = {}", li, c, meta.u_vectors[li][c], sum), ri, x, json!({}));
        }
    } }
    let skip_v = !(1e-13 * kappa * cond <= 0.05);
    let in_c02_scope = kappa <= 1e8;
    if skip_v { cx.sm.count("skipped_cancellation"); }
    if !skip_v {
        cx.sm.count("v_compared");
        let tol = 1e-13 * kappa * cond.max(1.0) + 1e-12;
        if !close(o.v * o.u, f_res, tol) {
            cx.viol("C09", format!("v*u = {} differs from the second Symanzik polynomial {} (cancellation {:.2e}, cond {:.2e})", o.v * o.u, f_res, kappa, cond), ri, x, json!({"xres": xres, "v": o.v, "u": o.u}));
        }
    }
    // ------------------------------------------------------------------ C12 (binding): lambda is the quantile of its coordinate
    let lam = meta.lambda;
    match momtrop::gamma::inverse_gamma_lr(&s.dod(), &x[2 * e - 2], 50, &5.0) {   // the sampler's own degree of divergence
        // (iteration count and stopping tolerance are the implementation's choice: agreement to 1e-7, not bit for bit)
        // compared where the quantile is well defined numerically (true quantile >= 1e-13, the accuracy domain of C12);
        // below it the iteration does not converge and its result depends on the iteration cap
        Ok(want) => if x[2 * e - 2] >= crate::checks::gamma::reg_lower_gamma(s.dod(), 1e-13) * (1.0 + 1e-6) && !(rel_err(lam, want) <= 1e-7) { cx.viol("C12", format!("lambda {} is not inverse_gamma_lr(dod, x[2E-2]) = {}", lam, want), ri, x, json!({})); },
        Err(_) => cx.viol("C12", "sample succeeded although the Gamma quantile of its coordinate is an error".into(), ri, x, json!({})),
    }
    if !(lam > 0.0 && lam.is_finite()) { cx.viol("C12", format!("lambda = {} used by a sample is not finite and positive", lam), ri, x, json!({})); }
    // ------------------------------------------------------------------ C13: Box-Muller map
    if meta.q_vectors.len() != l || meta.q_vectors.iter().any(|q| q.len() != d) {
        cx.viol("C13", format!("{} Gaussian vectors of lengths {:?} returned for {} loops in D = {} (a surplus sine must be discarded)", meta.q_vectors.len(), meta.q_vectors.iter().map(|q| q.len()).collect::<Vec<_>>(), l, d), ri, x, json!({}));
        return None;
    }
    {
        let base = 2 * e - 1;
        for li in 0..l { for c in 0..d {
            let n = li * d + c;
            let (a, b) = (x[base + 2 * (n / 2)], x[base + 2 * (n / 2) + 1]);
            let r = (-2.0 * a.ln()).sqrt();
            let th = 2.0 * std::f64::consts::PI * b;
            let want = if n % 2 == 0 { th.cos() * r } else { th.sin() * r };
            let got = meta.q_vectors[li][c];
            // a = 0 is a point of the hypercube: the radius is infinite there; the component must then be the same
            // non-finite value the formula gives
            let same_nonfinite = !want.is_finite() && ((want.is_nan() && got.is_nan()) || want == got);
            if !same_nonfinite && !((got - want).abs() <= 16.0 * f64::EPSILON * r.max(1.0)) {
                cx.viol("C13", format!("q[{}][{}] = {} is not the Box-Muller transform {} of coordinates {} and {}", li, c, got, want, base + 2 * (n / 2), base + 2 * (n / 2) + 1), ri, x, json!({}));
            }
        } }
    }
    // ------------------------------------------------------------------ C10: momentum map
    let gauss_finite = meta.q_vectors.iter().flatten().chain(o.loop_momenta.iter().flatten()).all(|v| v.is_finite());
    if !gauss_finite { cx.sm.count("nonfinite_gaussian_points"); }
    if !skip_v && gauss_finite {
        let q2: f64 = meta.q_vectors.iter().map(|q| q.iter().map(|c| c * c).sum::<f64>()).sum();
        let tol = 1e-12 * kappa * cond.max(1.0) + 1e-11;
        // (i) sum_e x_e (|q_e|^2 + m_e^2) = v (1 + |q|^2 / 2 lambda)
        let mut lhs = 0.0;
        for ee in 0..e {
            let mut qe2 = 0.0;
            for c in 0..d {
                let mut qc = p[ee][c];
                for li in 0..l { qc += sig[ee][li] as f64 * o.loop_momenta[li][c]; }
                qe2 += qc * qc;
            }
            lhs += xres[ee] * (qe2 + line.m[ee] * line.m[ee]);
        }
        let rhs = o.v * (1.0 + q2 / (2.0 * lam));
        if !close(lhs, rhs, tol * (1.0 + a_res / lhs.abs().max(1e-300))) {
            cx.viol("C10", format!("sum_e x_e(|q_e|^2+m_e^2) = {} differs from v(1+|q|^2/2lambda) = {}", lhs, rhs), ri, x, json!({"cond": cond, "kappa": kappa}));
        }
        // (ii) k + shift = sqrt(v/2lambda) Q^-T q
        let pref = (o.v / (2.0 * lam)).sqrt();
        let scale_k = meta.shift.iter().flatten().chain(o.loop_momenta.iter().flatten()).fold(0.0f64, |a, b| a.max(b.abs())).max(1e-300);
        for li in 0..l { for c in 0..d {
            let lhs = o.loop_momenta[li][c] + meta.shift[li][c];
            let rhs: f64 = (0..l).map(|lp| pref * meta.q_t_inv[li][lp] * meta.q_vectors[lp][c]).sum();
            if !((lhs - rhs).abs() <= 1e-12 * cond.max(1.0) * (scale_k + rhs.abs())) {
                cx.viol("C10", format!("k+L^-1u [{}][{}] = {} differs from sqrt(v/2lambda) Q^-T q = {}", li, c, lhs, rhs), ri, x, json!({"cond": cond}));
            }
        } }
        // (iii) L * shift = u_vectors.  shift = L^-1 u carries a norm-wise error eps cond |shift|, so the residual
        // is bounded by eps cond^2 max|u| (norm-wise, not per component: a component of u may be exactly 0)
        let u_scale = meta.u_vectors.iter().flatten().fold(0.0f64, |a, b| a.max(b.abs()));
        for li in 0..l { for c in 0..d {
            let (mut sum, mut abs) = (0.0, 0.0);
            for lp in 0..l { let t = lspec[li][lp] * meta.shift[lp][c]; sum += t; abs += t.abs(); }
            let tol3 = 1e-14 * (cond + cond * cond) * u_scale + 8.0 * f64::EPSILON * abs + 1e-300;
            if !((sum - meta.u_vectors[li][c]).abs() <= tol3) {
                cx.viol("C10", format!("L*shift [{}][{}] = {} differs from u = {}", li, c, sum, meta.u_vectors[li][c]), ri, x, json!({"cond": cond, "tol": tol3}));
            }
        } }
        // (iv) Qt^T Qt = L, Qt upper triangular
        for i in 0..l { for j in 0..l {
            let sum: f64 = (0..l).map(|k| meta.q_t[k][i] * meta.q_t[k][j]).sum();
            if !((sum - lspec[i][j]).abs() <= 1e-13 * (l as f64) * (lspec[i][i] * lspec[j][j]).sqrt()) {
                cx.viol("C10", format!("(Qt^T Qt)[{}][{}] = {} differs from L = {}", i, j, sum, lspec[i][j]), ri, x, json!({}));
            }
            if i > j && meta.q_t[i][j] != 0.0 { cx.viol("C10", "q_transposed is not upper triangular".into(), ri, x, json!({})); }
        } }
    }
    // ------------------------------------------------------------------ C11: jacobian
    if !(o.u_trop == 1.0 && o.v_trop == 1.0) { cx.viol("C11", format!("returned u_trop, v_trop = {}, {} instead of 1, 1", o.u_trop, o.v_trop), ri, x, json!({})); }
    let cached_code = s.to_json()["table"]["cached_factor"].as_f64().unwrap_or(f64::NAN);
    let jac_formula = o.u.powf(-half_d) * o.v.powf(-line.dod) * cached_code;
    if o.jacobian.is_nan() && jac_formula.is_nan() {
        cx.sm.count("jacobian_nan_consistent");
    } else if !(o.u > 0.0 && o.v > 0.0) {
        // V (or U) came out non-positive: rounding cancellation dominates at this point (it is also beyond the
        // cancellation bound of the quantifier); nothing meaningful to compare
        cx.sm.count("nonpositive_uv_points");
    } else if !close(o.jacobian, jac_formula, 1e-12 * (1.0 + half_d * o.u.ln().abs() + line.dod * o.v.ln().abs())) {
        cx.viol("C11", format!("jacobian {} differs from u^(-D/2) v^(-dod) * normalisation = {}", o.jacobian, jac_formula), ri, x, json!({}));
    }
    if let (Some(cs), false) = (cached_spec, skip_v) {
        // gauge invariance, entirely from the specification's structure at the UNRESCALED parameters
        let want = cs * (umax / u_un).powf(half_d) * ((fmax / umax) / v_un).powf(line.dod);
        if line.generic {
            cx.sm.count("gauge_checked");
            // (re-weighted lines: the code's J carries the rounding of its own omegas, up to 1e-10 per level by construction)
            let jslack = if line.g.wf.is_some() { 1e-8 } else { 0.0 };
            if !close(o.jacobian, want, 1e-11 * kappa * cond.max(1.0) + 1e-10 + jslack) {
                cx.viol("C11", format!("jacobian {} differs from I_tr Gamma(dod)/prod Gamma(w) pi^(DL/2) (U_tr/U)^(D/2) (V_tr/V)^dod = {} at the unrescaled parameters", o.jacobian, want), ri, x, json!({"kappa": kappa, "cond": cond}));
            }
        }
    }
    // ------------------------------------------------------------------ C02: bounds
    if line.generic && !skip_v && in_c02_scope && line.cmin > 0.0 {
        cx.sm.count("bounds_checked");
        let uu = o.u / sc.powi(l as i32);
        let vv = o.v / sc;
        let slack = 1e-9 * kappa + 1e-13 * kappa * cond.max(1.0);
        let mut bad = vec![];
        if !(utr <= uu * (1.0 + slack)) { bad.push("U_tr <= U"); }
        if !(uu <= line.nt * utr * (1.0 + slack)) { bad.push("U <= N_T U_tr"); }
        if !((line.cmin / line.nt) * vtr <= vv * (1.0 + slack)) { bad.push("(c_min/N_T) V_tr <= V"); }
        if !(vv <= line.csum * vtr * (1.0 + slack)) { bad.push("V <= C_sum V_tr"); }
        let ratio = o.jacobian / cached_code;
        let lo = line.nt.powf(-half_d) * line.csum.powf(-line.dod);
        let hi = (line.nt / line.cmin).powf(line.dod);
        let hi = if hi < 1.0 { 1.0f64.max(hi) } else { hi };
        if !(ratio >= lo * (1.0 - slack) && ratio <= hi * (1.0 + slack)) { bad.push("jacobian/normalisation within [N_T^(-D/2) C_sum^(-dod), (N_T/c_min)^dod]"); }
        if !bad.is_empty() {
            cx.viol("C02", format!("bounds violated: {:?}", bad), ri, x, json!({"U": uu, "Utr": utr, "V": vv, "Vtr": vtr, "NT": line.nt, "cmin": line.cmin, "csum": line.csum, "ratio": ratio, "lo": lo, "hi": hi}));
        }
    }
    Some((o.u, o.v, o.jacobian, kappa * cond.max(1.0)))
}

/// Masses the graph does not announce: the edge data may carry Some(mass) on an edge whose `is_massive` flag is false (the
/// flag only shapes the tropical approximation).  V and the momentum identity are stated for the masses GIVEN with the call:
/// v = sum_e x_e (m_e^2 + p_e^2) - u^T L^-1 u  (completing the square, spec/Symanzik.tla) and
/// sum_e x_e (|q_e|^2 + m_e^2) = v (1 + |q|^2 / 2 lambda).
fn extra_mass_check(cx: &mut Ctx, s: &dyn DynSampler, ri: usize, pt: &Point) {
    let line = cx.line;
    let (e, l, d) = (line.e, line.l, line.d);
    let (sig, p) = &line.routings[ri];
    let mass: Vec<f64> = (0..e).map(|i| if line.m[i] != 0.0 { line.m[i] } else { [1.5, 0.75, 2.0][(i + ri) % 3] }).collect();
    // (every other mass is passed with a minus sign: only m_e^2 enters V)
    let ed: EdgeData<f64> = (0..e).map(|i| (Some(if (i + ri) % 2 == 1 { -mass[i] } else { mass[i] }), p[i].clone())).collect();
    let out = s.sample_f64(&pt.x, &ed, &Settings::new(None, true, true));
    cx.sm.evaluations += 1;
    let x = &pt.x;
    let o = match (&out.outcome, out.obs.as_ref()) { (Outcome::Ok, Some(o)) => o, _ => return };
    let meta = match o.meta.as_ref() { Some(m) => m, None => return };
    let xres = match getlog(&out.log, "momtrop_feynman_parameter") { Some(v) => vf(v), None => return };
    if xres.len() != e || !xres.iter().all(|v| v.is_normal()) || meta.l_matrix.len() != l { return; }
    let lf = &meta.l_matrix;
    if !(0..l).all(|i| lf[i][i] > 0.0) { return; }
    let lsc: Vec<Vec<f64>> = (0..l).map(|i| (0..l).map(|j| lf[i][j] / (lf[i][i] * lf[j][j]).sqrt()).collect()).collect();
    let cond = inv_f64(&lsc).map(|li| norm1(&lsc) * norm1(&li)).unwrap_or(f64::INFINITY);
    if !(cond <= 1e6) { return; }
    let a_res: f64 = (0..e).map(|i| xres[i] * (mass[i] * mass[i] + p[i].iter().map(|c| c * c).sum::<f64>())).sum();
    let uv: Vec<Vec<f64>> = (0..l).map(|li| (0..d).map(|c| (0..e).map(|ee| sig[ee][li] as f64 * xres[ee] * p[ee][c]).sum()).collect()).collect();
    let mut b_res = 0.0;
    for l1 in 0..l { for l2 in 0..l { b_res += (0..d).map(|c| uv[l1][c] * uv[l2][c]).sum::<f64>() * meta.inverse[l1][l2]; } }
    let v_spec = a_res - b_res;
    let kappa = if v_spec > 0.0 { (a_res / v_spec).max(1.0) } else { f64::INFINITY };
    if !(1e-12 * kappa * cond <= 0.01) { return; }
    cx.sm.count("extra_mass_points");
    let tol = 1e-12 * kappa * cond.max(1.0) + 1e-12;
    if !close(o.v, v_spec, tol) {
        cx.viol("C09", format!("with a mass on an edge not flagged massive: v = {} differs from sum_e x_e (m_e^2 + p_e^2) - u^T L^-1 u = {}", o.v, v_spec), ri, x, json!({"masses": mass, "extra_mass": true}));
    }
    let gauss_finite = meta.q_vectors.iter().flatten().chain(o.loop_momenta.iter().flatten()).all(|v| v.is_finite());
    if gauss_finite && meta.lambda > 0.0 {
        let q2: f64 = meta.q_vectors.iter().map(|q| q.iter().map(|c| c * c).sum::<f64>()).sum();
        let mut lhs = 0.0;
        for ee in 0..e {
            let mut qe2 = 0.0;
            for c in 0..d {
                let mut qc = p[ee][c];
                for li in 0..l { qc += sig[ee][li] as f64 * o.loop_momenta[li][c]; }
                qe2 += qc * qc;
            }
            lhs += xres[ee] * (qe2 + mass[ee] * mass[ee]);
        }
        let rhs = o.v * (1.0 + q2 / (2.0 * meta.lambda));
        if !close(lhs, rhs, 10.0 * tol * (1.0 + a_res / lhs.abs().max(1e-300))) {
            cx.viol("C10", format!("with a mass on an edge not flagged massive: sum_e x_e(|q_e|^2+m_e^2) = {} differs from v(1+|q|^2/2lambda) = {}", lhs, rhs), ri, x, json!({"masses": mass, "extra_mass": true}));
        }
    }
}

/// C06 boundary part: at every reachable subgraph (steered prefix), coordinates at and around the exact
/// cumulative boundaries and next to 1.
fn boundary_checks(cx: &mut Ctx, s: &dyn DynSampler, rng: &mut impl Rng, max_subgraphs: usize) {
    let line = cx.line;
    let e = line.e;
    let dim = s.dim();
    let (_sig, p) = &line.routings[0];
    let ed: EdgeData<f64> = (0..e).map(|i| (Some(line.m[i]), p[i].clone())).collect();
    let mut subs: Vec<usize> = (1..(1usize << e)).filter(|id| id.count_ones() >= 2).collect();
    use rand::seq::SliceRandom;
    subs.shuffle(rng);
    subs.sort_by_key(|id| if *id == (1 << e) - 1 { 0 } else { 1 });
    for &target in subs.iter().take(max_subgraphs) {
        // a removal prefix leading to `target`: remove the edges not in target in index order
        let prefix: Vec<usize> = (0..e).filter(|b| target >> b & 1 == 0).collect();
        let members: Vec<usize> = (0..e).filter(|b| target >> b & 1 == 1).collect();
        let cum = &line.cum[target];
        if cum.iter().any(|c| c.is_none()) { cx.sm.count("boundary_skipped_ovf"); continue; }
        let cumv: Vec<f64> = cum.iter().map(|c| c.unwrap()).collect();
        // exactness scope: J(g), every J(g\e) and every omega(g\e) are powers of two, so each probability and each
        // running sum is computed without rounding and "the running sum reaches u" is decidable at u = boundary
        let pow2 = |n: i64| n > 0 && (n as u64).is_power_of_two();
        let wd = line.g.wd;
        let exact_scope = pow2(wd) && pow2(line.j_exact[target].0) && pow2(line.j_exact[target].1)
            && members.iter().all(|&b| { let sub = target ^ (1 << b); pow2(line.j_exact[sub].0) && pow2(line.j_exact[sub].1) && pow2(line.w_units[sub]) });
        if exact_scope { cx.sm.count("boundary_exact_scopes"); }
        // candidate coordinates: (u, set of acceptable positions)
        let mut cands: Vec<(f64, Vec<usize>, &'static str)> = vec![];
        let n = members.len();
        cands.push((0.0, vec![0], "zero"));
        cands.push((f64::from_bits(1), vec![0], "min_subnormal"));
        cands.push((2f64.powi(-60), vec![0], "2^-60"));
        for k in 0..n - 1 {
            let b = cumv[k];
            cands.push((b * (1.0 - 1e-6), vec![k], "below"));
            cands.push((b * (1.0 + 1e-6), vec![k + 1], "above"));
            cands.push((b, if exact_scope { vec![k] } else { vec![k, k + 1] }, if exact_scope { "at_exact" } else { "at" }));
            cands.push((f64::from_bits(b.to_bits() - 1), vec![k, k + 1], "pred"));
            cands.push((f64::from_bits(b.to_bits() + 1), vec![k, k + 1], "succ"));
            let lo = if k == 0 { 0.0 } else { cumv[k - 1] };
            cands.push((0.5 * (lo + b), vec![k], "mid"));
        }
        cands.push((1.0 - 1e-9, vec![n - 1], "1-1e-9"));
        cands.push((1.0 - f64::EPSILON, (0..n).collect(), "1-2^-52"));
        cands.push((1.0 - f64::EPSILON / 2.0, (0..n).collect(), "1-2^-53"));
        for (u, okpos0, tag) in cands {
            if !(0.0..1.0).contains(&u) { continue; }
            // legal positions from the exact cumulative sums with a rounding guard band (covers tails of any size)
            let band = 8.0 * f64::EPSILON;
            let mut okpos: Vec<usize> = (0..n).filter(|&k| (k == 0 || cumv[k - 1] <= u * (1.0 + band)) && u * (1.0 - band) <= cumv[k]).collect();
            if okpos.is_empty() { okpos.push(n - 1); }
            if tag == "at_exact" { okpos = okpos0.clone(); }
            let _ = &okpos0;
            // build the point: steer the prefix, then u at this step, then anything
            let mut x = vec![0.5; dim];
            let mut id = (1usize << e) - 1;
            let mut ok = true;
            for (k, &edge) in prefix.iter().enumerate() {
                let mem: Vec<usize> = (0..e).filter(|b| id >> b & 1 == 1).collect();
                let pos = mem.iter().position(|&b| b == edge).unwrap();
                match steer_u(line, id, pos) { Some(v) => x[2 * k] = v, None => { ok = false; break; } }
                id ^= 1 << edge;
            }
            if !ok { cx.sm.count("boundary_prefix_unsteerable"); continue; }
            let step = prefix.len();
            x[2 * step] = u;
            for i in 0..dim { if i < 2 * e - 2 && i % 2 == 1 { x[i] = 0.5; } }
            let out = s.sample_f64(&x, &ed, &Settings::new(None, true, false));
            cx.sm.evaluations += 1;
            cx.sm.count(&format!("boundary_{}", tag));
            match &out.outcome {
                Outcome::Panic(m) => {
                    cx.viol("C06", format!("no edge selected (panic) for u = {:e} ({}) at subgraph {}: {}", u, tag, target, m.chars().take(160).collect::<String>()), 0, &x,
                            json!({"u": hexf(u), "u_tag": tag, "subgraph": target, "panic": "sample_edge"}));
                    continue;
                }
                Outcome::Ok => {}
                _ => continue,
            }
            let xun = match getlog(&out.log, "momtrop_feynman_parameter_no_rescaling") { Some(v) => vf(v), None => continue };
            let ord = match order_of(&xun) { Some(o) => o, None => continue };
            if ord[..step] != prefix[..] { cx.viol("C06", "steered prefix not followed".into(), 0, &x, json!({"want": prefix, "got": ord})); continue; }
            let pos = members.iter().position(|&b| b == ord[step]).unwrap();
            if !okpos.contains(&pos) {
                cx.viol("C06", format!("u = {:e} ({}) at subgraph {} selected edge position {} but the running sum of probabilities first reaches u at position {:?}", u, tag, target, pos, okpos), 0, &x,
                        json!({"cum": cumv, "u": hexf(u), "u_tag": tag}));
            }
        }
    }
}

/// Gamma coordinate shared by the last call of a line and the first call of the next one
const HANDOVER: f64 = 0.4375;

/// builds the same graph for another D and drops the result (a rejected or panicking build is as good a history as an accepted one)
pub fn prime_other_d(spec: &crate::dynsampler::GraphSpec, sig: &[Vec<isize>], d: usize, idx: u64, sm: &mut Summary) {
    let other = if idx % 2 == 0 { if d > 1 { d - 1 } else { d + 1 } } else if d < 8 { d + 1 } else { d - 1 };
    let out = build(spec, sig.to_vec(), other);
    sm.count(match out { BuildOut::Ok(_) => "primed_other_d_ok", _ => "primed_other_d_rejected" });
}

/// a copy of `rows` whose outer buffer sits, if the allocator cooperates, at address `addr` (a block released just before)
pub fn steered_signature(addr: usize, rows: &[Vec<isize>], sm: &mut Summary) -> Vec<Vec<isize>> {
    let mut parked: Vec<Vec<Vec<isize>>> = vec![];
    let mut slot: Option<Vec<Vec<isize>>> = None;
    for _ in 0..64 {
        let c: Vec<Vec<isize>> = Vec::with_capacity(rows.len());
        if c.as_ptr() as usize == addr { slot = Some(c); break; }
        parked.push(c);
    }
    sm.count(if slot.is_some() { "signature_block_reused" } else { "signature_block_not_reused" });
    let mut out = slot.unwrap_or_else(|| Vec::with_capacity(rows.len()));
    out.extend(rows.iter().cloned());
    drop(parked);
    out
}

pub fn run(lines: &[Value], opts: &SampleOpts) -> Summary {
    let mut sm = Summary::default();
    for (li, inst) in lines.iter().enumerate() {
        let idx = li as u64 + opts.base_idx;
        let line = Line::parse(inst);
        let mut rng = rng_for(opts.seed, idx);
        if li < 2 { sm.sample(json!({"g": inst["g"], "name": inst["name"], "m": inst["m"], "routings": inst["routings"], "utrees": inst["utrees"], "f2": inst["f2"], "fm": inst["fm"], "NT": inst["NT"], "cmin": inst["cmin"], "csum": inst["csum"]})); }
        let map = line.g.label_map(&mut rng, false);
        let spec = line.g.to_spec_messy(&map, &[], &mut rng);
        let mut samplers: Vec<Box<dyn DynSampler>> = vec![];
        let mut okb = true;
        // history: the bit-identical graph is first built (and dropped) for ANOTHER space-time dimension in this process;
        // what that build left behind must not reach the samplers built below
        prime_other_d(&spec, &line.routings[0].0, line.d, idx, &mut sm);
        for (sig, _) in &line.routings {
            match build(&spec, sig.clone(), line.d) {
                BuildOut::Ok(s) => samplers.push(s),
                other => { sm.violation("C05", format!("build of an accepted graph gave {}", other.name()), json!({"line": inst, "idx": idx}), json!({})); okb = false; break; }
            }
        }
        if !okb { continue; }
        sm.count("lines");
        if line.l >= 2 { sm.nontrivial += 1; }
        let cached_spec = line.itr.map(|itr| itr * (ln_gamma(line.dod) - line.g.weights().iter().map(|&w| ln_gamma(w)).sum::<f64>()).exp()
            * std::f64::consts::PI.powf((line.d * line.l) as f64 / 2.0));
        let dim = samplers[0].dim();
        // points: every sector when E <= 4, else random sectors; plus unsteered random and extreme points
        let mut pts: Vec<Point> = vec![];
        if line.e <= 4 {
            for o in permutations(line.e) { pts.push(make_point(&line, dim, Some(&o), &mut rng, 0)); }
        } else {
            use rand::seq::SliceRandom;
            for _ in 0..opts.points_per_line { let mut o: Vec<usize> = (0..line.e).collect(); o.shuffle(&mut rng); pts.push(make_point(&line, dim, Some(&o), &mut rng, 0)); }
        }
        for k in 0..opts.points_per_line { pts.push(make_point(&line, dim, None, &mut rng, (k % 3) as u32)); }
        if line.e >= 2 && line.l >= 2 {
            use rand::seq::SliceRandom;
            for r in [7u32, 9, 10, 11, 12, 13, 16, 20] {
                let mut o: Vec<usize> = (0..line.e).collect(); o.shuffle(&mut rng);
                pts.push(make_point(&line, dim, Some(&o), &mut rng, 100 + r));
                sm.count("spread_points");
            }
        }
        // history across samplers: the last call of the previous line and the first call of this one carry the bit-identical
        // Gamma coordinate (the samplers differ, in general also their degree of divergence)
        if let Some(p0) = pts.first_mut() { if p0.x.len() > 2 * line.e - 2 { p0.x[2 * line.e - 2] = HANDOVER; } }
        // targeted sectors: where the table the sampler holds differs from the specification's table of this line (loop number,
        // spanning flag or omega of a subset), sectors that pass THROUGH that subset are visited, so that the consequences
        // for the sample-level relations are observed rather than left to chance (never taken on a tree whose table is right)
        {
            let tj = samplers[0].to_json();
            if let Some(tbl) = tj["table"]["table"].as_array() {
                let n = 1usize << line.e;
                let mut diff: Vec<usize> = vec![];
                if tbl.len() == n {
                    for id in 1..n - 1 {
                        let (cl, cs, cw) = (tbl[id]["loop_number"].as_i64().unwrap_or(-1), tbl[id]["mass_momentum_spanning"].as_bool().unwrap_or(false), tbl[id]["generalized_dod"].as_f64().unwrap_or(f64::NAN));
                        let (sl, ss) = (as_i64(&inst["l"][id]), inst["s"][id].as_bool().unwrap_or(false));
                        if cl != sl || cs != ss || !((cw - line.gd[id]).abs() <= 1e-9 * (1.0 + line.gd[id].abs())) { diff.push(id); }
                    }
                }
                for &id in diff.iter().take(6) {
                    let order: Vec<usize> = (0..line.e).filter(|b| id >> b & 1 == 0).chain((0..line.e).filter(|b| id >> b & 1 == 1)).collect();
                    for k in 0..6u32 { pts.push(make_point(&line, dim, Some(&order), &mut rng, k % 2)); }
                    sm.count("targeted_sectors");
                }
            }
        }
        let mut cx = Ctx { line: &line, inst, idx, sm: &mut sm };
        // history twins: the same point again with its Box-Muller coordinates permuted (a <-> b inside every pair, and the
        // pairs reversed): what was computed for the previous point must not be reused for this one
        let base_bm = 2 * line.e - 1;
        let twins: Vec<Point> = pts.iter().step_by(5).filter(|p| p.x.len() >= base_bm + 2).map(|p| {
            let mut x = p.x.clone();
            let tail: Vec<f64> = x[base_bm..].to_vec();
            let npairs = tail.len() / 2;
            for k in 0..npairs { let src = if k % 2 == 0 { k } else { npairs - 1 - k }; x[base_bm + 2 * k] = tail[2 * src + 1].max(f64::MIN_POSITIVE).min(1.0 - f64::EPSILON); x[base_bm + 2 * k + 1] = tail[2 * src]; }
            Point { x, want_order: p.want_order.clone() }
        }).collect();
        let mut pts_all: Vec<&Point> = vec![];
        let mut ti = 0;
        for (k, p) in pts.iter().enumerate() { pts_all.push(p); if k % 5 == 0 && p.x.len() >= base_bm + 2 { pts_all.push(&twins[ti]); ti += 1; } }
        for pt in pts_all {
            let stab = if opts.stab_all { Some([1e-3, 1e-9, 1e-16, 1.0][rng.gen_range(0..4)]) } else if rng.gen_bool(0.3) { Some([1e-3, 1e-3, 1e-11, 1e-14, 1e-15, 0.0][rng.gen_range(0..6)]) } else { None };
            let mut res = vec![];
            for (ri, s) in samplers.iter().enumerate() {
                if let Some(r) = check_point(&mut cx, s.as_ref(), cached_spec, ri, pt, stab) { res.push((ri, r)); }
            }
            // routing independence of u, v, jacobian
            for w in res.windows(2) {
                let ((ra, a), (rb, b)) = (&w[0], &w[1]);
                let tol = 1e-12 * a.3.max(b.3) + 1e-11;
                if !(tol <= 0.05) { continue; }
                cx.sm.count("routing_pairs_compared");
                if !close(a.0, b.0, tol) || !close(a.1, b.1, tol) || !close(a.2, b.2, tol * 10.0) {
                    cx.viol("C09", format!("u, v, jacobian depend on the routing: routing {} gives ({}, {}, {}), routing {} gives ({}, {}, {})", ra, a.0, a.1, a.2, rb, b.0, b.1, b.2), *rb, &pt.x, json!({}));
                }
            }
        }
        if line.m.iter().any(|&m| m == 0.0) {
            for pt in pts.iter().skip(1).take(3) { for ri in 0..samplers.len().min(2) { extra_mass_check(&mut cx, samplers[ri].as_ref(), ri, pt); } }
        }
        // history: use - drop - rebuild.  A sampler with routing A is used and dropped; the next one (another routing of the same shape)
        // is built with its signature in the heap block the first one released, as a loop over graphs does naturally
        if line.routings.len() >= 2 && !pts.is_empty() {
            let (ia, ib) = ((idx as usize) % line.routings.len(), (idx as usize + 1) % line.routings.len());
            let sig_a = line.routings[ia].0.clone();
            let addr = sig_a.as_ptr() as usize;
            if let BuildOut::Ok(sa) = build(&spec, sig_a, line.d) {
                check_point(&mut cx, sa.as_ref(), cached_spec, ia, &pts[0], None);
                drop(sa);
                let sig_b = steered_signature(addr, &line.routings[ib].0, cx.sm);
                if let BuildOut::Ok(sb) = build(&spec, sig_b, line.d) {
                    cx.sm.count("drop_rebuild_histories");
                    for pt in pts.iter().take(3) { check_point(&mut cx, sb.as_ref(), cached_spec, ib, pt, None); }
                }
            }
        }
        if opts.boundary {
            boundary_checks(&mut cx, samplers[0].as_ref(), &mut rng, 12);
        }
        // ---- the same structure with weights spread over many orders of magnitude (numerical range)
        if (li as u64 + opts.seed) % 2 == 0 && line.e >= 2 && line.e <= 5 {
            const PAL: [f64; 12] = [1e-11, 1e-9, 1e-6, 1e-3, 0.3, 1.0 / 3.0, 0.7, 1.25, 2.5, 10.0, 1e3, 1e6];
            for _try in 0..6 {
                let small = rng.gen_bool(0.6);
                let mut w: Vec<f64> = (0..line.e).map(|_| if small && rng.gen_bool(0.35) { PAL[rng.gen_range(0..4)] } else { PAL[rng.gen_range(4..10)] }).collect();
                // first try: the LAST edge (or the last two) almost weightless - its selection probability is then below 1e-9, the
                // tail of the cumulative distribution next to 1 belongs to it alone
                if _try == 0 {
                    for v in w.iter_mut() { if *v < 0.1 { *v = PAL[rng.gen_range(4..10)]; } }
                    let n = line.e;
                    w[n - 1] = [1e-11, 1e-12, 1e-13][rng.gen_range(0..3)];
                    if n >= 3 && rng.gen_bool(0.3) { w[n - 2] = 1e-12; }
                    sm.count("reweight_last_edge_tiny_tried");
                }
                if let Some(rl) = line.reweight(inst, &w) {
                    let mut spec2 = rl.g.to_spec(&map, &[]);
                    spec2.weights = w.clone();
                    let sb: Vec<Box<dyn DynSampler>> = rl.routings.iter().filter_map(|(sig, _)| match build(&spec2, sig.clone(), rl.d) { BuildOut::Ok(s) => Some(s), _ => None }).collect();
                    if sb.len() != rl.routings.len() {
                        sm.violation("C05", "build of a re-weighted, comfortably accepted graph failed".into(), json!({"line": inst, "idx": idx, "weights": w}), json!({"reweighted": true}));
                        break;
                    }
                    sm.count("reweighted_lines");
                    let cs2 = rl.itr.map(|itr| itr * (ln_gamma(rl.dod) - w.iter().map(|&x| ln_gamma(x)).sum::<f64>()).exp() * std::f64::consts::PI.powf((rl.d * rl.l) as f64 / 2.0));
                    let mut inst2 = inst.clone();
                    inst2["reweighted"] = json!(w.iter().map(|x| hexf(*x)).collect::<Vec<_>>());
                    let mut cx2 = Ctx { line: &rl, inst: &inst2, idx, sm: &mut sm };
                    let dim2 = sb[0].dim();
                    let mut pts2: Vec<Point> = vec![];
                    if rl.e <= 3 { for o in permutations(rl.e) { pts2.push(make_point(&rl, dim2, Some(&o), &mut rng, 0)); } }
                    for k in 0..4 { pts2.push(make_point(&rl, dim2, None, &mut rng, (k % 2) as u32)); }
                    for pt in &pts2 { for (ri, s2) in sb.iter().enumerate().take(2) { check_point(&mut cx2, s2.as_ref(), cs2.filter(|c| c.is_finite() && *c > 0.0), ri, pt, None); } }
                    if opts.boundary { boundary_checks(&mut cx2, sb[0].as_ref(), &mut rng, 4); }
                    break;
                }
            }
        }
        // hand-over call (see above): the last call made with this line's samplers
        {
            let mut ph = make_point(&line, dim, None, &mut rng, 0);
            if ph.x.len() > 2 * line.e - 2 { ph.x[2 * line.e - 2] = HANDOVER; }
            let mut cx = Ctx { line: &line, inst, idx, sm: &mut sm };
            let ri = samplers.len() - 1;
            check_point(&mut cx, samplers[ri].as_ref(), cached_spec, ri, &ph, None);
            cx.sm.count("handover_calls");
        }
    }
    sm
}

// ------------------------------------------------------------------------------------------------
// replay-sector: behaviours of the Sample machine (spec/gen/Gen_Sector.tla) stepped through the real call.
// The abstract state after the sector loop - removal order, xi exponents, tropical flag edges - is
// compared with the projection of the real execution (the repository's debug log), bit for bit.
pub fn run_sector(lines: &[Value], seed: u64, base_idx: u64, points: usize) -> Summary {
    use crate::graphs::cycle_basis;
    let mut sm = Summary::default();
    for (li, inst) in lines.iter().enumerate() {
        let idx = li as u64 + base_idx;
        let g = InstGraph::parse(&inst["g"]);
        let e = g.ne();
        let wd = g.wd as f64;
        let mut rng = rng_for(seed, idx);
        let order: Vec<usize> = arr(&inst["order"]).iter().map(|x| as_usize(x) - 1).collect();
        let om: Vec<f64> = arr(&inst["om"]).iter().map(|x| as_i64(x) as f64 / wd).collect();
        let utr: Vec<usize> = arr(&inst["utr"]).iter().map(|x| as_usize(x) - 1).collect();
        let vtr = as_i64(&inst["vtr"]);
        let steer: Vec<Option<(f64, f64)>> = arr(&inst["steer"]).iter().map(|iv| {
            let f = |r: &Value| { let (n, d) = (as_i64(&r[0]), as_i64(&r[1])); if d == 0 { None } else { Some(n as f64 / d as f64) } };
            match (f(&iv[0]), f(&iv[1])) { (Some(a), Some(b)) if b - a > 4e-6 => Some((a, b)), _ => None }
        }).collect();
        if steer.iter().any(|s| s.is_none()) { sm.count("unsteerable"); continue; }
        let map = g.label_map(&mut rng, false);
        let gspec = g.to_spec_messy(&map, &[], &mut rng);
        prime_other_d(&gspec, &cycle_basis(&g.edges), g.d, idx, &mut sm);
        let s = match build(&gspec, cycle_basis(&g.edges), g.d) { BuildOut::Ok(s) => s, o => {
            sm.violation("C05", format!("build of an accepted graph gave {}", o.name()), json!({"line": inst, "idx": idx}), json!({})); continue; } };
        if li < 2 { sm.sample(inst.clone()); }
        if e >= 3 { sm.nontrivial += 1; }
        let dim = s.dim();
        if dim != as_usize(&inst["dim"]) { sm.violation("C03", format!("get_dimension {} != {}", dim, inst["dim"]), json!({"line": inst, "idx": idx}), json!({})); continue; }
        for _ in 0..points {
            let mut x = vec![0.0; dim];
            for i in 0..dim {
                x[i] = if i < 2 * e - 2 && i % 2 == 0 { let (a, b) = steer[i / 2].unwrap(); a + (b - a) * rng.gen_range(0.25..0.75) }
                       else if i < 2 * e - 2 { [0.5, 0.25, rng.gen_range(0.05..0.95), rng.gen_range(0.05..0.95)][rng.gen_range(0..4)] }
                       else { rng.gen_range(0.01..0.99) };
            }
            let ed: EdgeData<f64> = (0..e).map(|i| (if g.mass[i] { Some(1.0) } else { None }, (0..g.d).map(|c| ((i + c) % 3) as f64 - 1.0).collect())).collect();
            let out = s.sample_f64(&x, &ed, &Settings::new(None, true, false));
            sm.evaluations += 1;
            let ident = json!({"line": inst, "idx": idx, "x": x.iter().map(|v| hexf(*v)).collect::<Vec<_>>()});
            if let Outcome::Panic(m) = &out.outcome { sm.violation("C06", format!("sample panicked: {}", m), ident, json!({})); continue; }
            let (xun, ut, vt) = match (getlog(&out.log, "momtrop_feynman_parameter_no_rescaling"), getlog(&out.log, "momtrop_u_trop_no_rescaling"), getlog(&out.log, "momtrop_v_trop_no_rescaling")) {
                (Some(a), Some(b), Some(c)) => (vf(a), b.as_f64().unwrap_or(f64::NAN), c.as_f64().unwrap_or(f64::NAN)),
                _ => { sm.count("log_missing"); continue; }
            };
            sm.count("behaviours_replayed");
            // state after the sector loop, action by action
            match order_of(&xun) {
                Some(o) if o == order => {}
                Some(o) => { sm.violation("C06", format!("removal order {:?} differs from the specification behaviour {:?} (coordinates inside the exact probability intervals)", o, order), ident.clone(), json!({"xun": xun})); continue; }
                None => { sm.count("order_ambiguous"); continue; }
            }
            let mut kappa = 1.0f64;
            let mut bad = vec![];
            for k in 0..e {
                if ulps(xun[order[k]], kappa) > 8 * (k as u64 + 1) { bad.push(json!({"step": k, "edge": order[k], "code": xun[order[k]], "spec": kappa})); }
                if k < e - 1 { kappa *= x[2 * k + 1].powf(1.0 / om[k]); }
            }
            if !bad.is_empty() { sm.violation("C07", "Feynman parameters differ from prod_j xi_j^(1/omega(g_j)) of the specification behaviour".into(), ident.clone(), json!({"bad": bad, "om": om})); }
            let mut up = 1.0f64;
            for &ed_ in &utr { up *= xun[ed_]; }
            if ulps(ut, up) > 4 { sm.violation("C07", format!("u_trop before rescaling {} differs from the product over the specification's flag edges {:?} = {}", ut, utr, up), ident.clone(), json!({"xun": xun})); }
            let vp = if vtr == 0 { 1.0 } else { xun[vtr as usize - 1] };
            if vt.to_bits() != vp.to_bits() { sm.violation("C07", format!("v_trop before rescaling {} differs from the parameter of the specification's flag edge {} = {}", vt, vtr, vp), ident.clone(), json!({"xun": xun})); }
        }
    }
    sm
}
