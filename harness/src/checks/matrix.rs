//! replay-chol (mode R, C15 exactness scope + C16 exact singular inputs) and record-matrix
//! (mode V: accuracy classes against exact rational linear algebra, outcome classes for C16).

use crate::dynsampler::{mat_to_vv, panic_msg, Settings};
use crate::inst::*;
use crate::tr::{self, Event, Tr};
use momtrop::matrix::{DecompositionResult, MatrixError, SquareMatrix};
use num::bigint::BigInt;
use num::rational::BigRational;
use num::{One, Signed, ToPrimitive, Zero};
use rand::Rng;
use serde_json::{json, Value};
use std::panic::{catch_unwind, AssertUnwindSafe};

pub fn make_matrix(m: &[Vec<f64>]) -> SquareMatrix<f64> {
    let n = m.len();
    let mut a = SquareMatrix::new_zeros_from_num(&1.0f64, n);
    for i in 0..n { for j in 0..n { a[(i, j)] = m[i][j]; } }
    a
}

pub enum DecOut {
    Ok(DecompositionResult<f64>),
    ZeroDet,
    Unstable,
    Panic(String),
}
impl DecOut {
    pub fn name(&self) -> &'static str {
        match self { DecOut::Ok(_) => "Ok", DecOut::ZeroDet => "ZeroDet", DecOut::Unstable => "Unstable", DecOut::Panic(_) => "Panic" }
    }
}

pub fn decompose(m: &[Vec<f64>], tol: Option<f64>) -> DecOut {
    decompose_dbg(m, tol, false)
}
pub fn decompose_dbg(m: &[Vec<f64>], tol: Option<f64>, debug: bool) -> DecOut {
    let a = make_matrix(m);
    let s = Settings::new(tol, debug, false).to_momtrop();
    match catch_unwind(AssertUnwindSafe(|| a.decompose_for_tropical(&s))) {
        Ok(Ok(r)) => DecOut::Ok(r),
        Ok(Err(MatrixError::ZeroDet)) => DecOut::ZeroDet,
        Ok(Err(MatrixError::Unstable)) => DecOut::Unstable,
        Err(p) => DecOut::Panic(panic_msg(p)),
    }
}

fn rat(v: &Value) -> Option<f64> {
    let (n, d) = (as_i64(&v[0]), as_i64(&v[1]));
    if d == 0 { None } else { Some(n as f64 / d as f64) }
}

/// replay-chol: Gen_Chol lines
pub fn replay(lines: &[Value], _seed: u64, base_idx: u64) -> Summary {
    let mut sm = Summary::default();
    for (li, inst) in lines.iter().enumerate() {
        sm.evaluations += 1;
        let n = as_usize(&inst["n"]);
        let m: Vec<Vec<f64>> = arr(&inst["M"]).iter().map(|r| arr(r).iter().map(|x| as_i64(x) as f64).collect()).collect();
        let tol = if inst["tol"].as_str() == Some("some") { Some(1e-3) } else { None };
        let ident = json!({"line": inst, "idx": li as u64 + base_idx});
        if li < 3 { sm.sample(inst.clone()); }
        let want = inst["outcome"].as_str().unwrap();
        let out = decompose(&m, tol);
        sm.count(&format!("spec_{}", want));
        if n >= 3 { sm.nontrivial += 1; }
        match (&out, want) {
            (DecOut::Panic(msg), _) => { sm.violation("C16", format!("decompose_for_tropical panicked: {}", msg), ident, json!({})); }
            (DecOut::ZeroDet, "zerodet") => {}
            (other, "zerodet") => {
                sm.violation("C16", format!("exactly singular matrix (zero last pivot) gave {} instead of ZeroDet", other.name()), ident, json!({}));
            }
            (DecOut::Ok(r), "ok") => {
                if inst["ovf"].as_bool().unwrap_or(false) { sm.count("skipped_overflow"); continue; }
                let mut bad = vec![];
                let chk = |name: &str, got: Vec<Vec<f64>>, want: &Value, bad: &mut Vec<Value>| {
                    for i in 0..n { for j in 0..n {
                        if let Some(w) = rat(&want[i][j]) {
                            if ulps(got[i][j], w) > 4 && !(w == 0.0 && got[i][j] == 0.0) {
                                bad.push(json!({"what": name, "i": i, "j": j, "code": got[i][j], "spec": want[i][j]}));
                            }
                        }
                    } }
                };
                chk("inverse", mat_to_vv(&r.inverse), &inst["inv"], &mut bad);
                chk("q_transposed", mat_to_vv(&r.q_transposed), &inst["qt"], &mut bad);
                chk("q_transposed_inverse", mat_to_vv(&r.q_transposed_inverse), &inst["qti"], &mut bad);
                if let Some(w) = rat(&inst["det"]) { if ulps(r.determinant, w) > 4 { bad.push(json!({"what": "determinant", "code": r.determinant, "spec": inst["det"]})); } }
                sm.add("entries_compared", (3 * n * n + 1) as i64);
                if !bad.is_empty() {
                    sm.violation("C15", format!("{} results differ from the exact factorisation (exactness scope: no rounding expected)", bad.len()), ident, json!({"bad": bad}));
                }
            }
            (DecOut::Unstable, "ok") | (DecOut::ZeroDet, "ok") => {
                sm.violation("C15", format!("positive-definite exact input gave {}", out.name()), ident, json!({}));
            }
            (_, "unstable") => { sm.count("spec_unstable_ignored"); }
            _ => {}
        }
    }
    sm
}

// ------------------------------------------------------------------------------------------------ exact linear algebra
type Q = BigRational;
fn qf(x: f64) -> Q { BigRational::from_float(x).unwrap_or_else(Q::zero) }
fn q2f(x: &Q) -> f64 {
    // ratio of big integers to double with correct scaling
    let (n, d) = (x.numer(), x.denom());
    let nb = n.bits() as i64; let db = d.bits() as i64;
    let shift = (nb - db) - 60;
    let (nn, dd): (BigInt, BigInt) = if shift > 0 { (n.clone(), d.clone() << shift as usize) } else { (n.clone() << (-shift) as usize, d.clone()) };
    let qi = (&nn / &dd).to_f64().unwrap_or(f64::NAN);
    qi * 2f64.powi(shift as i32)
}
fn exact_inv_det(m: &[Vec<f64>]) -> Option<(Vec<Vec<Q>>, Q)> {
    let n = m.len();
    let mut a: Vec<Vec<Q>> = (0..n).map(|i| { let mut r: Vec<Q> = m[i].iter().map(|&x| qf(x)).collect(); r.extend((0..n).map(|j| if i == j { Q::one() } else { Q::zero() })); r }).collect();
    let mut det = Q::one();
    for c in 0..n {
        let p = (c..n).find(|&i| !a[i][c].is_zero())?;
        if p != c { a.swap(c, p); det = -det; }
        let d = a[c][c].clone();
        det *= &d;
        for j in 0..2 * n { a[c][j] = &a[c][j] / &d; }
        for i in 0..n { if i != c && !a[i][c].is_zero() { let f = a[i][c].clone(); for j in 0..2 * n { let t = &a[c][j] * &f; a[i][j] -= t; } } }
    }
    Some((a.into_iter().map(|r| r[n..].to_vec()).collect(), det))
}
/// leading principal minors all positive (exact) <=> positive definite
fn is_spd_exact(m: &[Vec<f64>]) -> bool {
    let n = m.len();
    for k in 1..=n {
        let sub: Vec<Vec<f64>> = (0..k).map(|i| m[i][..k].to_vec()).collect();
        match exact_inv_det(&sub) { Some((_, d)) if d.is_positive() => {}, _ => return false }
    }
    true
}

fn l21_err(inv: &[Vec<f64>], m: &[Vec<f64>]) -> f64 {
    let n = m.len();
    let mut res = 0.0;
    for j in 0..n {
        let mut col = 0.0;
        for i in 0..n {
            let mut s = 0.0;
            for k in 0..n { s += inv[i][k] * m[k][j]; }
            if i == j { s -= 1.0; }
            col += s * s;
        }
        res += col.sqrt();
    }
    res
}

fn cls(x: f64) -> &'static str {
    if x.is_nan() { "nan" } else if x == 0.0 { "zero" } else if x.is_infinite() { "inf" } else if x < 0.0 { "neg" } else { "pos" }
}

pub fn gen_matrix(rng: &mut impl Rng, kind: usize, n: usize) -> (Vec<Vec<f64>>, &'static str) {
    let sym = |f: &mut dyn FnMut(usize, usize) -> f64| -> Vec<Vec<f64>> {
        let mut m = vec![vec![0.0; n]; n];
        for i in 0..n { for j in i..n { let v = f(i, j); m[i][j] = v; m[j][i] = v; } }
        m
    };
    let rtr = |r: &Vec<Vec<f64>>| -> Vec<Vec<f64>> {
        let mut m = vec![vec![0.0; n]; n];
        for i in 0..n { for j in 0..n { m[i][j] = (0..n).map(|k| r[k][i] * r[k][j]).sum(); } }
        // exact symmetry
        let mut s = m.clone();
        for i in 0..n { for j in 0..i { s[i][j] = m[j][i]; } }
        s
    };
    match kind % 13 {
        0 => { // random SPD: A^T A + small diagonal
            let a: Vec<Vec<f64>> = (0..n).map(|_| (0..n).map(|_| rng.gen_range(-1.0..1.0)).collect()).collect();
            let mut m = rtr(&a); for i in 0..n { m[i][i] += 0.05; } (m, "random_spd")
        }
        1 => { // graded: D A D with D = diag(10^-k)
            let a: Vec<Vec<f64>> = (0..n).map(|_| (0..n).map(|_| rng.gen_range(-1.0..1.0)).collect()).collect();
            let mut m = rtr(&a); for i in 0..n { m[i][i] += 0.5; }
            let kmax = rng.gen_range(0.0..(4.5 / n.max(1) as f64));
            for i in 0..n { for j in 0..n { m[i][j] *= 10f64.powf(-kmax * (i + j) as f64); } } (m, "graded")
        }
        2 => (sym(&mut |i, j| 1.0 / ((i + j + 1) as f64)), "hilbert"),
        3 => { // L-like: sum_e x_e s s^T with random signature
            let ne = n + rng.gen_range(1..4);
            let sig: Vec<Vec<f64>> = (0..ne).map(|e| (0..n).map(|l| if e < n { if e == l { 1.0 } else { 0.0 } } else { [-1.0, 0.0, 1.0][rng.gen_range(0..3)] }).collect()).collect();
            let x: Vec<f64> = (0..ne).map(|_| 10f64.powf(rng.gen_range(-3.0..1.0))).collect();
            (sym(&mut |i, j| (0..ne).map(|e| x[e] * sig[e][i] * sig[e][j]).sum()), "l_like")
        }
        4 => { // exactly singular: v v^T (+ another rank-one) with small integers
            let v: Vec<f64> = (0..n).map(|_| rng.gen_range(-3i32..4) as f64).collect();
            let w: Vec<f64> = (0..n).map(|_| rng.gen_range(-2i32..3) as f64).collect();
            let two = n >= 3 && rng.gen_bool(0.5);
            (sym(&mut |i, j| v[i] * v[j] + if two { w[i] * w[j] } else { 0.0 }), "singular")
        }
        5 => { // indefinite
            let mut m = sym(&mut |_, _| rng.gen_range(-1.0..1.0)); if n > 0 { let k = rng.gen_range(0..n); m[k][k] = -m[k][k].abs() - 0.1; } (m, "indefinite")
        }
        6 => { // NaN / inf entries
            let mut m = sym(&mut |i, j| if i == j { 2.0 } else { 0.1 });
            let (i, j) = (rng.gen_range(0..n), rng.gen_range(0..n));
            let v = [f64::NAN, f64::INFINITY, f64::NEG_INFINITY][rng.gen_range(0..3)];
            m[i][j] = v; m[j][i] = v; (m, "nonfinite")
        }
        7 => { // scaled towards under/overflow
            let k = [-1070, -600, -520, -300, -100, -60, -40, 40, 300, 510, 600][rng.gen_range(0..11)];
            let a: Vec<Vec<f64>> = (0..n).map(|_| (0..n).map(|_| rng.gen_range(-1.0..1.0)).collect()).collect();
            let mut m = rtr(&a); for i in 0..n { m[i][i] += 0.5; }
            for i in 0..n { for j in 0..n { m[i][j] *= 2f64.powi(k); } } (m, "scaled")
        }
        8 => { // semi-definite, repeated rows
            let mut m = sym(&mut |i, j| if i == j { 1.0 } else { 0.3 });
            if n >= 2 { let a = rng.gen_range(0..n); let b = (a + 1) % n; for j in 0..n { m[b][j] = m[a][j]; } for i in 0..n { m[i][b] = m[i][a]; } m[b][b] = m[a][a]; m[a][b] = m[a][a]; m[b][a] = m[a][a]; }
            (m, "semidefinite")
        }
        10 => { // tridiagonal / banded SPD with exact zeros (no fill-in)
            let band = 1 + (kind / 13) % 2;
            (sym(&mut |i, j| if i == j { 2.0 + (i as f64) * 0.25 } else if j - i <= band { -0.75 / (j - i) as f64 } else { 0.0 }), "banded")
        }
        11 => { // arrow / star pattern: zeros between the spokes, fill-in in the factor
            let hub = if (kind / 13) % 2 == 0 { 0 } else { n - 1 };
            (sym(&mut |i, j| if i == j { 4.0 + i as f64 } else if i == hub || j == hub { 1.0 } else { 0.0 }), "arrow")
        }
        12 => { // block diagonal with a coupling to an earlier index
            (sym(&mut |i, j| if i == j { 3.0 } else if i == 0 && j >= 1 { 0.5 } else if (i + j) % 3 == 0 { 0.0 } else if j == i + 2 { 0.25 } else { 0.0 }), "sparse_mixed")
        }
        _ => { // ill-conditioned SPD: eigenvalue spread
            let a: Vec<Vec<f64>> = (0..n).map(|_| (0..n).map(|_| rng.gen_range(-1.0..1.0)).collect()).collect();
            let mut m = rtr(&a); let eps = 10f64.powf(rng.gen_range(-9.0..-2.0)); for i in 0..n { m[i][i] += eps; } (m, "ill_conditioned")
        }
    }
}

/// record-matrix: writes Dec events for Trace_Matrix
pub fn record(seed: u64, count: usize, trace_path: &str) -> Summary {
    use std::io::Write;
    let mut sm = Summary::default();
    let mut f = std::io::BufWriter::new(std::fs::File::create(trace_path).unwrap());
    let mut rng = rng_for(seed, 4242);
    let tols: [Option<f64>; 7] = [None, Some(0.0), Some(1e-14), Some(1e-9), Some(1e-3), Some(1.0), Some(f64::INFINITY)];
    for it in 0..count {
        let n = 1 + (it / 10) % 8;
        let (m, kind) = gen_matrix(&mut rng, it, n);
        let mut tol = tols[rng.gen_range(0..tols.len())];
        if it % 3 == 0 {
            // a tolerance placed right next to the residual the documented L_{2,1} formula gives for this matrix
            if let DecOut::Ok(r) = decompose(&m, None) {
                let e = l21_err(&mat_to_vv(&r.inverse), &m);
                if e.is_finite() && e > 0.0 { tol = Some(e * [0.5, 0.7, 0.8, 0.9, 0.95, 0.99, 1.01, 1.05, 1.5][rng.gen_range(0..9)]); sm.count("adaptive_tolerance"); }
            }
        }
        let ev = dec_event(&m, tol, kind, it, &mut sm);
        if sm.samples.len() < 3 { sm.sample(ev.clone()); }
        writeln!(f, "{}", ev).unwrap();
        sm.events += 1;
    }
    sm
}

/// replay-dec: re-run recorded Dec events (matrix and tolerance as hex doubles) through the real code
pub fn replay_dec(lines: &[Value], trace_path: &str) -> Summary {
    use std::io::Write;
    let mut sm = Summary::default();
    let mut f = std::io::BufWriter::new(std::fs::File::create(trace_path).unwrap());
    for (it, e) in lines.iter().enumerate() {
        let m: Vec<Vec<f64>> = arr(&e["m"]).iter().map(|r| arr(r).iter().map(|x| unhexf(x.as_str().unwrap())).collect()).collect();
        let tol = match e["tol"].as_str() { Some("none") | None => None, Some(h) => Some(unhexf(h)) };
        let ev = dec_event(&m, tol, "replayed", it, &mut sm);
        writeln!(f, "{}", ev).unwrap();
        sm.events += 1;
    }
    sm
}

fn dec_event(m: &[Vec<f64>], tol: Option<f64>, kind: &str, it: usize, sm: &mut Summary) -> Value {
    let n = m.len();
    {
        // history: the same matrix first with a looser tolerance (and without the test) on this thread - what an
        // earlier call accepted must not leak into a later, stricter call
        if let Some(t) = tol { if it % 3 == 0 { let _ = decompose(m, Some(if t.is_finite() { t * 1e6 + 1.0 } else { t })); let _ = decompose(m, None); } }
        // f64 run, and the same call with print_debug_info on: same outcome, same bits (C17)
        let out = decompose(m, tol);
        let out_dbg = decompose_dbg(m, tol, true);
        let dbg_same = out.name() == out_dbg.name() && match (&out, &out_dbg) {
            (DecOut::Ok(a), DecOut::Ok(b)) => a.determinant.to_bits() == b.determinant.to_bits()
                && mat_to_vv(&a.inverse).iter().flatten().zip(mat_to_vv(&b.inverse).iter().flatten()).all(|(x, y)| x.to_bits() == y.to_bits()),
            _ => true };
        // Tr run: value of det_q at the `== zero` comparison (class of the pivot product)
        tr::reset();
        let mut a = SquareMatrix::new_zeros_from_num(&Tr::leaf(3, 0, 1.0), n);
        for i in 0..n { for j in 0..n { a[(i, j)] = Tr::leaf(3, (i * n + j) as u32, m[i][j]); } }
        let s = Settings::new(tol, false, false).to_momtrop();
        let tr_out = catch_unwind(AssertUnwindSafe(|| a.decompose_for_tropical(&s)));
        let dag = tr::take();
        let narrow = dag.events.iter().filter(|e| matches!(e, Event::Narrow { .. })).count();
        let dq = dag.events.iter().find_map(|e| match e { Event::Cmp { a, kind: "eq", .. } => Some(dag.nodes[*a as usize].v), _ => None });
        let dqc = match dq { Some(v) if v.is_nan() => "nan", Some(v) if v == 0.0 => "zero", Some(_) => "nonzero", None => "unobserved" };
        let tr_name = match &tr_out { Ok(Ok(_)) => "Ok", Ok(Err(MatrixError::ZeroDet)) => "ZeroDet", Ok(Err(MatrixError::Unstable)) => "Unstable", Err(_) => "Panic" };
        sm.evaluations += 1;
        sm.count(&format!("kind_{}", kind));
        sm.count(&format!("result_{}", out.name()));
        let finite = m.iter().flatten().all(|v| v.is_finite());
        let spd = finite && is_spd_exact(m);
        let exact = if spd { exact_inv_det(m) } else { None };
        let mut ev = json!({"ev": "Dec", "it": it, "kind": kind, "n": n, "result": out.name(), "tr_result": tr_name, "dq": dqc,
                            "tolc": if tol.is_some() { "some" } else { "none" }, "narrow": narrow, "dbg_same": dbg_same, "spd": false, "condok": false,
                            "det": "na", "err": "na", "nan": false, "acc_det": true, "acc_inv": true, "acc_qtq": true, "acc_qtiq": true, "tri": true, "posdiag": true,
                            "m": m.iter().map(|r| r.iter().map(|v| hexf(*v)).collect::<Vec<_>>()).collect::<Vec<_>>(),
                            "tol": tol.map(hexf).unwrap_or_else(|| "none".to_string())});
        if let DecOut::Ok(r) = &out {
            let inv = mat_to_vv(&r.inverse); let qt = mat_to_vv(&r.q_transposed); let qti = mat_to_vv(&r.q_transposed_inverse);
            let has_nan = r.determinant.is_nan() || inv.iter().chain(qt.iter()).chain(qti.iter()).flatten().any(|v| v.is_nan());
            ev["nan"] = json!(has_nan);
            ev["det"] = json!(cls(r.determinant));
            if let Some(t) = tol {
                let e = l21_err(&inv, m);
                ev["err"] = json!(if e.is_nan() { "nan" } else if e <= t * (1.0 - 1e-6) || (e == 0.0 && t >= 0.0) { "le" } else if e <= t * (1.0 + 1e-6) + f64::MIN_POSITIVE { "border" } else { "gt" });
            }
            if let Some((einv, edet)) = &exact {
                let nrm = |a: &dyn Fn(usize, usize) -> f64| -> f64 { (0..n).map(|j| (0..n).map(|i| a(i, j).abs()).sum::<f64>()).fold(0.0, f64::max) };
                let n_m = nrm(&|i, j| m[i][j]);
                let n_inv = nrm(&|i, j| q2f(&einv[i][j]));
                let cond = n_m * n_inv;
                // in scope of the accuracy clause: moderate condition number and a determinant / entries that f64 can hold
                let d_rng = q2f(edet).abs();
                let e_max = m.iter().flatten().fold(0.0f64, |a, b| a.max(b.abs()));
                let e_min = (0..n).map(|i| m[i][i].abs()).fold(f64::INFINITY, f64::min);
                let condok = cond <= 1e10 && d_rng > 1e-280 && d_rng < 1e280 && e_max < 1e140 && e_min > 1e-140;
                ev["spd"] = json!(true); ev["condok"] = json!(condok);
                if condok { sm.nontrivial += 1; }
                let k = 256.0 * (n * n) as f64 * f64::EPSILON;
                let d_ex = q2f(edet);
                let acc_det = ((r.determinant - d_ex) / d_ex).abs() <= k * cond;
                let mut e_inv = 0.0f64;
                for i in 0..n { for j in 0..n { e_inv = e_inv.max((inv[i][j] - q2f(&einv[i][j])).abs()); } }
                let acc_inv = e_inv <= k * cond * n_inv;
                let mut e_qtq = 0.0f64; let mut e_qq = 0.0f64;
                for i in 0..n { for j in 0..n {
                    let s: f64 = (0..n).map(|kk| qt[kk][i] * qt[kk][j]).sum();
                    e_qtq = e_qtq.max((s - m[i][j]).abs());
                    let p: f64 = (0..n).map(|kk| qti[i][kk] * qt[kk][j]).sum();
                    e_qq = e_qq.max((p - if i == j { 1.0 } else { 0.0 }).abs());
                } }
                let acc_qtq = e_qtq <= k * n_m;
                let acc_qtiq = e_qq <= k * cond.sqrt().max(1.0);
                let tri = (0..n).all(|i| (0..i).all(|j| qt[i][j] == 0.0));
                let posdiag = (0..n).all(|i| qt[i][i] > 0.0);
                ev["acc_det"] = json!(acc_det); ev["acc_inv"] = json!(acc_inv); ev["acc_qtq"] = json!(acc_qtq); ev["acc_qtiq"] = json!(acc_qtiq);
                ev["tri"] = json!(tri); ev["posdiag"] = json!(posdiag);
                if condok { sm.max("worst_det_ratio_x1000", (((r.determinant - d_ex) / d_ex).abs() / (f64::EPSILON * cond) * 1000.0) as i64);
                sm.max("worst_inv_ratio_x1000", (e_inv / (f64::EPSILON * cond * n_inv) * 1000.0) as i64); }
            }
        } else if let Some((einv, _)) = &exact {
            let n_m = (0..n).map(|j| (0..n).map(|i| m[i][j].abs()).sum::<f64>()).fold(0.0, f64::max);
            let n_inv = (0..n).map(|j| (0..n).map(|i| q2f(&einv[i][j]).abs()).sum::<f64>()).fold(0.0, f64::max);
            let d_rng = exact.as_ref().map(|x| q2f(&x.1).abs()).unwrap_or(0.0);
            let e_max = m.iter().flatten().fold(0.0f64, |a, b| a.max(b.abs()));
            let e_min = (0..n).map(|i| m[i][i].abs()).fold(f64::INFINITY, f64::min);
            ev["spd"] = json!(true); ev["condok"] = json!(n_m * n_inv <= 1e10 && d_rng > 1e-280 && d_rng < 1e280 && e_max < 1e140 && e_min > 1e-140);
        }
        ev
    }
}
