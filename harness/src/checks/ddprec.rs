//! replay-dd: the sample-level relations once more, with a double-double scalar as the user's type (C19: "a
//! higher-precision type yields correspondingly more precise u, v, inverse and momenta").  Input: Gen_Routing lines.
//! What is compared is what the public API hands back IN the user's type: L matrix, Cholesky factor, inverse, determinant
//! (against the exact rational determinant of the returned L), shift, Gaussian vectors, loop momenta, jacobian, and the
//! routing independence of u, v, jacobian - each at a tolerance of ~1e-27 x condition instead of 1e-13 x condition.
//! A detour through f64 in any of these (other than the Gamma draw) leaves an error of ~1e-17 and is reported under the
//! property whose relation it breaks and under C19.  Edge selection is replayed at coordinates 1e-24 away from the exact
//! cumulative boundaries (inside the exactness scope: table constants that are powers of two) and at 1 - 1e-25.

use crate::checks::sample::{getlog, inv_f64, make_point, norm1, order_of, vf, Line};
use crate::dd::*;
use crate::dynsampler::*;
use crate::inst::*;
use num::{BigRational, Signed, Zero};
use rand::Rng;
use serde_json::{json, Value};

fn jitter(v: f64, rng: &mut impl Rng) -> Dd {
    // a value that is NOT a double: the low part carries ~50 further bits
    if v == 0.0 || !v.is_finite() { return Dd::f(v); }
    Dd::new(v, v * rng.gen_range(-1.0..1.0) * 2f64.powi(-55))
}
fn absd(a: Dd) -> f64 { a.hi.abs() }
fn sub(a: Dd, b: Dd) -> Dd { Dd::add_dd(a, b.neg_dd()) }

fn exact_det(m: &[Vec<Dd>]) -> Option<BigRational> {
    let n = m.len();
    let mut a: Vec<Vec<BigRational>> = vec![];
    for r in m { let mut row = vec![]; for v in r { row.push(v.to_rational()?); } a.push(row); }
    let mut det = BigRational::from_integer(1.into());
    for c in 0..n {
        let p = (c..n).find(|&r| !a[r][c].is_zero())?;
        if p != c { a.swap(p, c); det = -det; }
        let piv = a[c][c].clone();
        det = det * &piv;
        for r in c + 1..n {
            if a[r][c].is_zero() { continue; }
            let f = &a[r][c] / &piv;
            for k in c..n { let t = &a[c][k] * &f; a[r][k] = &a[r][k] - t; }
        }
    }
    Some(det)
}

struct Cx<'a> { sm: &'a mut Summary, inst: &'a Value, idx: u64 }
impl<'a> Cx<'a> {
    /// a relation that holds only to f64 accuracy in the user's type: reported under the relation's property and under C19
    fn viol2(&mut self, prop: &str, what: String, ri: usize, x: &[Dd], detail: Value) {
        let inst = json!({"line": self.inst, "idx": self.idx, "routing": ri, "dd": true,
                          "x": x.iter().map(|v| json!([hexf(v.hi), hexf(v.lo)])).collect::<Vec<_>>()});
        self.sm.violation(prop, format!("[double-double scalar] {}", what), inst.clone(), detail.clone());
        if prop != "C19" {
            self.sm.violation("C19", format!("[double-double scalar] precision of the user's type not preserved: {}", what), inst, detail);
        }
    }
}

/// C12 with the user's type: for p in [0,1) OF THAT TYPE (including values whose f64 image is 1.0) the quantile is an error
/// or a finite positive value, and never a panic
fn gamma_dd(sm: &mut Summary, seed: u64) {
    use std::panic::{catch_unwind, AssertUnwindSafe};
    let mut rng = rng_for(seed ^ 0x9a, 7);
    let mut shapes: Vec<f64> = vec![0.05, 0.3, 0.5, 1.0 - 1e-9, 1.0 - 4e-9, 1.0, 1.0 + 1e-9, 1.0 + 9e-9, 1.5, 2.0, 3.0, 10.0, 50.0, 100.0];
    for _ in 0..20 { shapes.push(0.05 * 2000f64.powf(rng.gen_range(0.0..1.0))); }
    let mut ps: Vec<Dd> = vec![Dd::new(1.0, -1e-25), Dd::new(1.0, -1e-20), Dd::new(1.0, -1.2e-17), Dd::new(1.0, -1e-16), Dd::new(1.0, -1e-30),
                               Dd::new(0.5, 1e-20), Dd::f(1e-300), Dd::f(1e-320), Dd::ZERO, Dd::new(1e-17, 1e-40)];
    for _ in 0..10 { ps.push(jitter(rng.gen_range(0.0..1.0), &mut rng)); }
    for &a in &shapes { for p in &ps {
        let r = catch_unwind(AssertUnwindSafe(|| momtrop::gamma::inverse_gamma_lr(&Dd::f(a), p, 50, &Dd::f(5.0))));
        sm.evaluations += 1;
        sm.count("dd_gamma_calls");
        let bad = match r {
            Ok(Ok(l)) => if l.is_finite() && l.hi > 0.0 { None } else { Some(format!("returned the value ({:e}, {:e})", l.hi, l.lo)) },
            Ok(Err(_)) => None,
            Err(m) => Some(format!("panicked: {}", panic_msg(m))),
        };
        if let Some(b) = bad {
            sm.violation("C12", format!("[double-double scalar] inverse_gamma_lr(a = {}, p = {:e} + {:e}) {}", a, p.hi, p.lo, b),
                         json!({"dd": true, "gamma": {"a": hexf(a), "p": [hexf(p.hi), hexf(p.lo)]}, "line": {}}), json!({}));
        }
    } }
}

/// decompose_for_tropical called directly with the user's type: accuracy in that type (C15) and the tolerance boundary of
/// the stability test decided in that type (C16): with tol = the f64 image of the distance, the call must fail when the distance
/// (a value of the user's type) exceeds tol (the converse is not demanded by the property)
fn matrix_dd(sm: &mut Summary, seed: u64) {
    use momtrop::matrix::{MatrixError, SquareMatrix};
    use std::panic::{catch_unwind, AssertUnwindSafe};
    let mut rng = rng_for(seed ^ 0x3a7, 11);
    let dec = |m: &[Vec<Dd>], tol: Option<f64>| -> Result<Result<momtrop::matrix::DecompositionResult<Dd>, &'static str>, String> {
        let n = m.len();
        let mut a = SquareMatrix::new_zeros_from_num(&Dd::ONE, n);
        for i in 0..n { for j in 0..n { a[(i, j)] = m[i][j]; } }
        let st = Settings::new(tol, false, false).to_momtrop();
        match catch_unwind(AssertUnwindSafe(|| a.decompose_for_tropical(&st))) {
            Ok(Ok(r)) => Ok(Ok(r)),
            Ok(Err(MatrixError::ZeroDet)) => Ok(Err("ZeroDet")),
            Ok(Err(MatrixError::Unstable)) => Ok(Err("Unstable")),
            Err(p) => Err(panic_msg(p)),
        }
    };
    for it in 0..240usize {
        let n = 1 + it % 6;
        let (mf, kind) = crate::checks::matrix::gen_matrix(&mut rng, [0usize, 3, 2, 0, 3, 1][it % 6], n);
        // a symmetric matrix whose entries are not doubles
        let mut m = vec![vec![Dd::ZERO; n]; n];
        for i in 0..n { for j in i..n { let v = jitter(mf[i][j], &mut rng); m[i][j] = v; m[j][i] = v; } }
        let inst = |what: &str| json!({"dd": true, "matrix": {"kind": kind, "n": n, "what": what, "m": m.iter().map(|r| r.iter().map(|v| json!([hexf(v.hi), hexf(v.lo)])).collect::<Vec<_>>()).collect::<Vec<_>>()}, "line": {}});
        let r = match dec(&m, None) { Ok(Ok(r)) => r, Ok(Err(_)) => continue, Err(p) => { sm.violation("C15", format!("[double-double scalar] decompose_for_tropical panicked: {}", p), inst("panic"), json!({})); continue; } };
        sm.evaluations += 1;
        sm.count("dd_matrices");
        let inv = mat_to_vv(&r.inverse);
        let lf: Vec<Vec<f64>> = m.iter().map(|r| r.iter().map(|v| v.hi).collect()).collect();
        if !(0..n).all(|i| lf[i][i] > 0.0) { continue; }
        let lsc: Vec<Vec<f64>> = (0..n).map(|i| (0..n).map(|j| lf[i][j] / (lf[i][i] * lf[j][j]).sqrt()).collect()).collect();
        let cond = inv_f64(&lsc).map(|li| norm1(&lsc) * norm1(&li)).unwrap_or(f64::INFINITY);
        if !(cond <= 1e6) { sm.count("dd_matrix_skipped_cond"); continue; }
        // C15: determinant against the exact rational determinant
        if let Some(dx) = exact_det(&m) {
            if dx.is_positive() {
                let want = Dd::from_rational(&dx);
                let rel = absd(sub(r.determinant, want)) / want.hi.abs();
                if !(rel <= 1e-27 * cond * n as f64 * 10.0) {
                    sm.violation("C15", format!("[double-double scalar] determinant differs from the exact one by {:e} (relative), condition {:.1e}", rel, cond), inst("det"), json!({}));
                    sm.violation("C19", format!("[double-double scalar] precision of the user's type not preserved in decompose_for_tropical: determinant off by {:e}", rel), inst("det"), json!({}));
                }
            }
        }
        // the distance the stability test speaks about, in the user's type
        let mut dist = Dd::ZERO;
        for j in 0..n {
            let mut col = Dd::ZERO;
            for i in 0..n {
                let mut sacc = Dd::ZERO;
                for k in 0..n { sacc = Dd::add_dd(sacc, Dd::mul_dd(inv[i][k], m[k][j])); }
                if i == j { sacc = sub(sacc, Dd::ONE); }
                col = Dd::add_dd(col, Dd::mul_dd(sacc, sacc));
            }
            dist = Dd::add_dd(dist, col.sqrt_dd());
        }
        if !(dist.hi > 0.0 && dist.is_finite()) { continue; }
        // tol = f64 image of the distance: the verdict depends on the low part alone.  (Only decided when the low part is well
        // above the rounding of the distance computation itself.)
        let tol = dist.hi;
        if dist.lo.abs() < 1e-3 * dist.hi * 2f64.powi(-53) { sm.count("dd_matrix_tolerance_undecided"); continue; }
        sm.count("dd_matrix_tolerance_cases");
        let above = dist.lo > 0.0;
        match dec(&m, Some(tol)) {
            Ok(Ok(_)) if above => sm.violation("C16", format!("[double-double scalar] Ok although the distance {:e} + {:e} exceeds tol = {:e} in the user's type", dist.hi, dist.lo, tol), inst("tol"), json!({})),
            Err(p) => sm.violation("C16", format!("[double-double scalar] decompose_for_tropical panicked with the stability test on: {}", p), inst("tol"), json!({})),
            _ => {}
        }
    }
}

/// decompose_for_tropical with a scalar of f64 precision and unbounded exponent (harness xf.rs): for a matrix scaled by 2^k the
/// outcome is the one of the unscaled f64 call and every returned number is the f64 result scaled by the corresponding power
/// of two, bit for bit (scaling by powers of two commutes with IEEE +, -, *, /, sqrt).  C15 for SPD matrices whose determinant
/// lies outside the f64 range; a detour through f64 inside the routine shows as 0, inf or a wrong outcome.
fn matrix_xf(sm: &mut Summary, seed: u64) {
    use crate::xf::Xf;
    use momtrop::matrix::{MatrixError, SquareMatrix};
    use std::panic::{catch_unwind, AssertUnwindSafe};
    let mut rng = rng_for(seed ^ 0xf00, 13);
    for it in 0..160usize {
        let n = 1 + it % 8;
        let (mf, kind) = crate::checks::matrix::gen_matrix(&mut rng, [0usize, 3, 2, 1, 0, 3, 4, 5][it % 8], n);
        if !mf.iter().flatten().all(|v| v.is_finite()) { continue; }
        let tol = [None, Some(1e-9), Some(1e-13), None][it % 4];
        let reference = crate::checks::matrix::decompose(&mf, tol);
        for &k in &[-400i64, 400, -60, 1000] {
            let mut a = SquareMatrix::new_zeros_from_num(&Xf::ONE, n);
            for i in 0..n { for j in 0..n { a[(i, j)] = Xf::scaled(mf[i][j], k); } }
            let st = Settings::new(tol, false, false).to_momtrop();
            let r = catch_unwind(AssertUnwindSafe(|| a.decompose_for_tropical(&st)));
            sm.evaluations += 1;
            sm.count("xf_matrices");
            let inst = json!({"dd": true, "matrix": {"xf": true, "kind": kind, "n": n, "k": k, "tol": tol.map(hexf), "m": mf.iter().map(|r| r.iter().map(|v| hexf(*v)).collect::<Vec<_>>()).collect::<Vec<_>>()}, "line": {}});
            let name = match &r { Ok(Ok(_)) => "Ok", Ok(Err(MatrixError::ZeroDet)) => "ZeroDet", Ok(Err(MatrixError::Unstable)) => "Unstable", Err(_) => "Panic" };
            let mut bad: Option<String> = None;
            if name != reference.name() {
                bad = Some(format!("outcome {} for the matrix scaled by 2^{}, the unscaled f64 call gives {}", name, k, reference.name()));
            } else if let (Ok(Ok(x)), crate::checks::matrix::DecOut::Ok(f)) = (&r, &reference) {
                let same = |a: Xf, b: f64, kk: i64| { let w = Xf::scaled(b, kk); (a.m.is_nan() && w.m.is_nan()) || a == w };
                'cmp: for i in 0..n { for j in 0..n {
                    if !same(x.q_transposed[(i, j)], f.q_transposed[(i, j)], k / 2) { bad = Some(format!("q_transposed[{}][{}] is not the f64 result scaled by 2^{}", i, j, k / 2)); break 'cmp; }
                    if !same(x.q_transposed_inverse[(i, j)], f.q_transposed_inverse[(i, j)], -k / 2) { bad = Some(format!("q_transposed_inverse[{}][{}] is not the f64 result scaled by 2^{}", i, j, -k / 2)); break 'cmp; }
                    if !same(x.inverse[(i, j)], f.inverse[(i, j)], -k) { bad = Some(format!("inverse[{}][{}] is not the f64 result scaled by 2^{}", i, j, -k)); break 'cmp; }
                } }
                if bad.is_none() && !same(x.determinant, f.determinant, k * n as i64) { bad = Some(format!("determinant is not the f64 result scaled by 2^{}", k * n as i64)); }
            }
            if let Some(b) = bad {
                sm.violation("C15", format!("[wide-range scalar] decompose_for_tropical ({} matrix, dimension {}): {}", kind, n, b), inst.clone(), json!({}));
                sm.violation("C19", format!("[wide-range scalar] the range of the user's type is not preserved in decompose_for_tropical: {}", b), inst, json!({}));
            }
        }
    }
}

pub fn run(lines: &[Value], seed: u64, base_idx: u64, points: usize) -> Summary {
    let mut sm = Summary::default();
    gamma_dd(&mut sm, seed);
    matrix_dd(&mut sm, seed);
    matrix_xf(&mut sm, seed);
    for (li, inst) in lines.iter().enumerate() {
        let idx = li as u64 + base_idx;
        let line = Line::parse(inst);
        let mut rng = rng_for(seed ^ 0xdd, idx);
        let (e, l, d) = (line.e, line.l, line.d);
        let map = line.g.label_map(&mut rng, false);
        let spec = line.g.to_spec_messy(&map, &[], &mut rng);
        let mut samplers: Vec<Box<dyn DynSampler>> = vec![];
        for (sig, _) in &line.routings {
            if let BuildOut::Ok(s) = build(&spec, sig.clone(), d) { samplers.push(s); }
        }
        if samplers.len() != line.routings.len() { sm.count("build_failed"); continue; }
        sm.count("lines");
        if l >= 2 { sm.nontrivial += 1; }
        if li < 1 { sm.sample(json!({"g": inst["g"], "routings": inst["routings"]})); }
        let dim = samplers[0].dim();
        let mut cx = Cx { sm: &mut sm, inst, idx };
        let tj = samplers[0].to_json();
        let cached = tj["table"]["cached_factor"].as_f64().unwrap_or(f64::NAN);
        // (j_function, generalized_dod) per id as stored; None when the table cannot be read
        let table: Option<Vec<(f64, f64)>> = tj["table"]["table"].as_array().map(|a| a.iter().map(|t| (t["j_function"].as_f64().unwrap_or(f64::NAN), t["generalized_dod"].as_f64().unwrap_or(f64::NAN))).collect())
            .filter(|v: &Vec<(f64, f64)>| v.len() == 1usize << e);
        for k in 0..points {
            let pt = make_point(&line, dim, None, &mut rng, 0);
            let xd: Vec<Dd> = pt.x.iter().map(|&v| { let j = jitter(v, &mut rng); if j.hi >= 1.0 { Dd::f(v) } else { j } }).collect();
            let stab = if k % 3 == 0 { Some(1e-20) } else { None };
            let mut per_routing: Vec<(usize, Dd, Dd, Dd, f64)> = vec![];
            for (ri, s) in samplers.iter().enumerate() {
                let (sig, p) = &line.routings[ri];
                // masses and shifts: the specification's integers plus a low part, the SAME physical values for every routing
                let mut r2 = rng_for(seed ^ 0x5eed, idx * 1000 + k as u64);
                let masses: Vec<Dd> = (0..e).map(|i| if line.m[i] != 0.0 { jitter(line.m[i], &mut r2) } else { Dd::ZERO }).collect();
                let ed: EdgeData<Dd> = (0..e).map(|i| (if line.m[i] != 0.0 || (i + ri) % 2 == 0 { Some(masses[i]) } else { None },
                                                       p[i].iter().map(|&c| Dd::f(c)).collect())).collect();
                let out = s.sample_dd(&xd, &ed, &Settings::new(stab, true, true));
                cx.sm.evaluations += 1;
                cx.sm.count(&format!("dd_outcome_{}", out.outcome.name()));
                let o = match (&out.outcome, out.obs.as_ref()) {
                    (Outcome::Ok, Some(o)) => o,
                    (Outcome::Panic(m), _) => { cx.viol2(if m.contains("sample edge") || m.contains("Sampling could not") { "C06" } else { "C19" }, format!("sample panicked with the double-double scalar: {}", m), ri, &xd, json!({})); continue; }
                    _ => continue,
                };
                let meta = match o.meta.as_ref() { Some(m) => m, None => continue };
                let xres = match getlog(&out.log, "momtrop_feynman_parameter") { Some(v) => vf(v), None => { cx.sm.count("log_missing"); continue; } };
                if xres.len() != e || !xres.iter().all(|v| v.is_normal()) { cx.sm.count("dd_skipped_range"); continue; }
                let lm = &meta.l_matrix;
                if lm.len() != l { continue; }
                // condition number (scaled) and cancellation ratio, from the f64 images
                let lf: Vec<Vec<f64>> = lm.iter().map(|r| r.iter().map(|v| v.hi).collect()).collect();
                if !(0..l).all(|i| lf[i][i] > 0.0) { cx.sm.count("dd_skipped_range"); continue; }
                let lsc: Vec<Vec<f64>> = (0..l).map(|i| (0..l).map(|j| lf[i][j] / (lf[i][i] * lf[j][j]).sqrt()).collect()).collect();
                let cond = inv_f64(&lsc).map(|li| norm1(&lsc) * norm1(&li)).unwrap_or(f64::INFINITY);
                if !(cond <= 1e3) { cx.sm.count("dd_skipped_cond"); continue; }
                let a_res: f64 = (0..e).map(|i| xres[i] * (masses[i].hi * masses[i].hi + p[i].iter().map(|c| c * c).sum::<f64>())).sum();
                let kappa = if o.v.hi > 0.0 { (a_res / o.v.hi).max(1.0) } else { f64::INFINITY };
                if !(kappa <= 1e4) { cx.sm.count("dd_skipped_cancellation"); continue; }
                cx.sm.count("dd_points_checked");
                let te = 1e-27;
                let dg: Vec<f64> = (0..l).map(|i| lf[i][i].sqrt()).collect();
                // ---- C15 in the user's type: Qt^T Qt = L, Qt upper triangular with positive diagonal
                for i in 0..l { for j in 0..l {
                    let mut sum = Dd::ZERO;
                    for kk in 0..l { sum = Dd::add_dd(sum, Dd::mul_dd(meta.q_t[kk][i], meta.q_t[kk][j])); }
                    if !(absd(sub(sum, lm[i][j])) <= te * (l as f64) * dg[i] * dg[j]) {
                        cx.viol2("C15", format!("(Qt^T Qt)[{}][{}] differs from L by {:e} (relative to sqrt(L_ii L_jj): {:e})", i, j, absd(sub(sum, lm[i][j])), absd(sub(sum, lm[i][j])) / (dg[i] * dg[j])), ri, &xd, json!({"cond": cond}));
                    }
                    if i > j && !(meta.q_t[i][j].hi == 0.0) { cx.viol2("C15", "q_transposed is not upper triangular".into(), ri, &xd, json!({})); }
                } if !(meta.q_t[i][i].hi > 0.0) { cx.viol2("C15", "q_transposed has a non-positive diagonal entry".into(), ri, &xd, json!({})); } }
                // inverse * L = 1 and Qt_inv * Qt = 1 (residual scaled by the diagonal of L)
                for i in 0..l { for j in 0..l {
                    let (mut s1, mut s2) = (Dd::ZERO, Dd::ZERO);
                    for kk in 0..l {
                        s1 = Dd::add_dd(s1, Dd::mul_dd(meta.inverse[i][kk], lm[kk][j]));
                        s2 = Dd::add_dd(s2, Dd::mul_dd(meta.q_t_inv[i][kk], meta.q_t[kk][j]));
                    }
                    let id = if i == j { Dd::ONE } else { Dd::ZERO };
                    let (r1, r2) = (absd(sub(s1, id)) * dg[i] / dg[j], absd(sub(s2, id)) * dg[i] / dg[j]);
                    if !(r1 <= te * (cond + cond * cond) * l as f64) { cx.viol2("C15", format!("(inverse L - 1)[{}][{}] = {:e} (scaled), condition {:.1e}", i, j, r1, cond), ri, &xd, json!({})); }
                    if !(r2 <= te * cond * l as f64 * 10.0) { cx.viol2("C15", format!("(Qt_inv Qt - 1)[{}][{}] = {:e} (scaled), condition {:.1e}", i, j, r2, cond), ri, &xd, json!({})); }
                } }
                // determinant against the exact rational determinant of the returned L
                if let Some(dx) = exact_det(lm) {
                    if dx.is_positive() {
                        let want = Dd::from_rational(&dx);
                        let rel = absd(sub(meta.det, want)) / want.hi.abs();
                        cx.sm.count("dd_exact_determinants");
                        if !(rel <= te * cond * l as f64 * 10.0) { cx.viol2("C15", format!("determinant differs from the exact determinant of the returned L by {:e} (relative), condition {:.1e}", rel, cond), ri, &xd, json!({})); }
                        if !(meta.det == o.u) { cx.viol2("C08", "metadata determinant differs from u".into(), ri, &xd, json!({})); }
                    }
                }
                // ---- C07 in the user's type: the returned L is the L of the sector formula's parameters after the common rescaling,
                // evaluated with the same scalar type from the point, the table's omegas and the specification's flags
                if let (Some(xun), Some(tbl)) = (getlog(&out.log, "momtrop_feynman_parameter_no_rescaling").map(vf), table.as_ref()) {
                    if let Some(ord) = order_of(&xun) {
                        let full = (1usize << e) - 1;
                        let mut id = full;
                        let mut kap = Dd::ONE;
                        let mut xs = vec![Dd::ZERO; e];
                        let (mut utr, mut vtr) = (Dd::ONE, Dd::ONE);
                        let mut ok = true;
                        for k in 0..e {
                            let edge = ord[k];
                            xs[edge] = kap;
                            let sub = id ^ (1 << edge);
                            let (ls, lg) = (as_i64(&inst["l"][sub]), as_i64(&inst["l"][id]));
                            let (ss, sg) = (inst["s"][sub].as_bool().unwrap_or(false), inst["s"][id].as_bool().unwrap_or(false));
                            if sg && !ss { vtr = xs[edge]; }
                            if ls < lg { utr = Dd::mul_dd(utr, xs[edge]); }
                            id = sub;
                            if id != 0 {
                                let om = tbl[id].1;
                                if !(om > 0.0) { ok = false; break; }
                                kap = Dd::mul_dd(kap, xd[2 * k + 1].powf_dd(Dd::div_dd(Dd::ONE, Dd::f(om))));
                            }
                        }
                        if ok {
                            let xi_trop = Dd::mul_dd(utr, vtr);
                            let target = Dd::mul_dd(utr.powf_dd(Dd::f(-(d as f64 / 2.0))), Dd::div_dd(utr, xi_trop).powf_dd(Dd::f(s.dod())));
                            let scaling = target.powf_dd(Dd::div_dd(Dd::ONE, Dd::f(d as f64 / 2.0 * l as f64 + s.dod())));
                            let xr: Vec<Dd> = xs.iter().map(|v| Dd::mul_dd(*v, scaling)).collect();
                            if xr.iter().all(|v| v.is_finite() && v.hi > 0.0) {
                                cx.sm.count("dd_sector_formula_points");
                                // ---- C08 / C09 in the user's type: u = U(x), v u = F(x) with the specification's trees and 2-forests
                                let mono = |id: usize| (0..e).filter(|b| id >> b & 1 == 1).fold(Dd::ONE, |a, b| Dd::mul_dd(a, xr[b]));
                                let u_spec = line.utrees.iter().fold(Dd::ZERO, |a, &id| Dd::add_dd(a, mono(id)));
                                let relu = absd(sub(o.u, u_spec)) / u_spec.hi.abs().max(1e-300);
                                if !(relu <= 1e-26 * cond.max(1.0) * 10.0) {
                                    cx.viol2("C08", format!("u differs from the spanning-tree polynomial of the sector formula's parameters by {:e} (relative), condition {:.1e}", relu, cond), ri, &xd, json!({}));
                                }
                                // v = sum_e x_e (m_e^2 + p_e^2) - sum_{l,l'} (u_l . u_l') (L^-1)_{l l'}  (completing the square; spec/Symanzik.tla),
                                // with x_e from the sector formula, the user's masses, u_l = sum_e s_el x_e p_e, and the returned inverse
                                // (itself compared with L above)
                                {
                                    let mut a_dd = Dd::ZERO;
                                    for ee in 0..e {
                                        let p2 = p[ee].iter().fold(Dd::ZERO, |a, &c| Dd::add_dd(a, Dd::f(c * c)));
                                        a_dd = Dd::add_dd(a_dd, Dd::mul_dd(xr[ee], Dd::add_dd(Dd::mul_dd(masses[ee], masses[ee]), p2)));
                                    }
                                    let uv: Vec<Vec<Dd>> = (0..l).map(|li2| (0..d).map(|c| (0..e).fold(Dd::ZERO, |a, ee| Dd::add_dd(a, Dd::mul_dd(xr[ee], Dd::f(sig[ee][li2] as f64 * p[ee][c])))) ).collect()).collect();
                                    let mut b_dd = Dd::ZERO;
                                    for l1 in 0..l { for l2 in 0..l {
                                        let dot = (0..d).fold(Dd::ZERO, |a, c| Dd::add_dd(a, Dd::mul_dd(uv[l1][c], uv[l2][c])));
                                        b_dd = Dd::add_dd(b_dd, Dd::mul_dd(dot, meta.inverse[l1][l2]));
                                    } }
                                    let v_spec = sub(a_dd, b_dd);
                                    let tolv = 1e-26 * kappa * cond.max(1.0) * 10.0;
                                    if tolv <= 1e-19 && v_spec.hi > 0.0 {
                                        cx.sm.count("dd_v_compared");
                                        let relv = absd(sub(o.v, v_spec)) / v_spec.hi;
                                        if !(relv <= tolv) {
                                            cx.viol2("C09", format!("v differs from sum_e x_e (m_e^2 + p_e^2) - u^T L^-1 u at the sector formula's parameters and the user's masses by {:e} (relative; cancellation {:.1e}, condition {:.1e})", relv, kappa, cond), ri, &xd, json!({}));
                                        }
                                    }
                                }
                                'outer: for i in 0..l { for j in 0..l {
                                    let (mut sum, mut abs) = (Dd::ZERO, 0.0f64);
                                    for ee in 0..e {
                                        let c = sig[ee][i] * sig[ee][j];
                                        if c != 0 { let t = Dd::mul_dd(xr[ee], Dd::f(c as f64)); sum = Dd::add_dd(sum, t); abs += t.hi.abs(); }
                                    }
                                    let df = absd(sub(sum, lm[i][j]));
                                    if !(df <= 1e-26 * abs) {
                                        cx.viol2("C07", format!("L[{}][{}] differs by {:e} (relative {:e}) from sum_e x_e s_ei s_ej with x_e the sector formula prod_j xi_j^(1/omega_j) times the common rescaling, evaluated in the user's type", i, j, df, df / abs.max(1e-300)), ri, &xd, json!({"order": ord}));
                                        break 'outer;
                                    }
                                } }
                            }
                        }
                    }
                }
                // ---- C10 in the user's type
                let gauss_finite = meta.q_vectors.iter().flatten().chain(o.loop_momenta.iter().flatten()).all(|v| v.is_finite());
                if gauss_finite && o.v.hi > 0.0 && meta.lambda.hi > 0.0 {
                    let pref = Dd::div_dd(o.v, Dd::mul_dd(Dd::f(2.0), meta.lambda)).sqrt_dd();
                    let scale_k = meta.shift.iter().flatten().chain(o.loop_momenta.iter().flatten()).fold(0.0f64, |a, b| a.max(b.hi.abs())).max(1e-300);
                    let u_scale = (0..l).map(|i| meta.u_vectors[i].iter().fold(0.0f64, |a, b| a.max(b.hi.abs())) / dg[i]).fold(0.0f64, f64::max);
                    for li2 in 0..l { for c in 0..d {
                        let lhs = Dd::add_dd(o.loop_momenta[li2][c], meta.shift[li2][c]);
                        let mut rhs = Dd::ZERO;
                        for lp in 0..l { rhs = Dd::add_dd(rhs, Dd::mul_dd(Dd::mul_dd(pref, meta.q_t_inv[li2][lp]), meta.q_vectors[lp][c])); }
                        let df = absd(sub(lhs, rhs));
                        if !(df <= 10.0 * te * cond * (scale_k + rhs.hi.abs())) {
                            cx.viol2("C10", format!("k + L^-1 u [{}][{}] differs from sqrt(v/2lambda) Q^-T q by {:e} (scale {:e})", li2, c, df, scale_k + rhs.hi.abs()), ri, &xd, json!({"cond": cond}));
                        }
                        let mut sum = Dd::ZERO;
                        for lp in 0..l { sum = Dd::add_dd(sum, Dd::mul_dd(lm[li2][lp], meta.shift[lp][c])); }
                        let r = absd(sub(sum, meta.u_vectors[li2][c])) / dg[li2];
                        if !(r <= te * (cond + cond * cond) * l as f64 * u_scale + 1e-300) {
                            cx.viol2("C10", format!("L * shift [{}][{}] differs from u by {:e} (scaled; u scale {:e})", li2, c, r, u_scale), ri, &xd, json!({"cond": cond}));
                        }
                    } }
                }
                // ---- C13 in the user's type
                {
                    let base = 2 * e - 1;
                    for li2 in 0..l { for c in 0..d {
                        let n = li2 * d + c;
                        let (a, b) = (xd[base + 2 * (n / 2)], xd[base + 2 * (n / 2) + 1]);
                        let r = Dd::mul_dd(Dd::f(-2.0), a.ln_dd()).sqrt_dd();
                        let th = Dd::mul_dd(Dd::mul_dd(Dd::f(2.0), DD_PI), b);
                        let (sn, cs) = th.sin_cos_dd();
                        let want = Dd::mul_dd(if n % 2 == 0 { cs } else { sn }, r);
                        let got = meta.q_vectors[li2][c];
                        if want.is_finite() && !(absd(sub(got, want)) <= 10.0 * te * r.hi.max(1.0)) {
                            cx.viol2("C13", format!("q[{}][{}] differs from the Box-Muller transform of its coordinates by {:e}", li2, c, absd(sub(got, want))), ri, &xd, json!({}));
                        }
                    } }
                }
                // ---- C11 in the user's type
                if o.u.hi > 0.0 && o.v.hi > 0.0 && cached.is_finite() {
                    let half_d = Dd::f(d as f64 / 2.0);
                    let dodd = Dd::f(s.dod());
                    let formula = Dd::mul_dd(Dd::mul_dd(o.u.powf_dd(half_d.neg_dd()), o.v.powf_dd(dodd.neg_dd())), Dd::f(cached));
                    let rel = absd(sub(o.jacobian, formula)) / formula.hi.abs();
                    if !(rel <= 1e-26 * (1.0 + half_d.hi * o.u.hi.ln().abs() + dodd.hi * o.v.hi.ln().abs())) {
                        cx.viol2("C11", format!("jacobian differs from u^(-D/2) v^(-dod) x normalisation by {:e} (relative)", rel), ri, &xd, json!({}));
                    }
                    if !(o.u_trop == Dd::ONE && o.v_trop == Dd::ONE) { cx.viol2("C11", "returned u_trop, v_trop are not 1".into(), ri, &xd, json!({})); }
                }
                let _ = sig;
                per_routing.push((ri, o.u, o.v, o.jacobian, kappa * cond.max(1.0)));
            }
            // ---- C09 in the user's type: u, v, jacobian do not depend on the routing
            for w in per_routing.windows(2) {
                let ((ra, ua, va, ja, ka), (rb, ub, vb, jb, kb)) = (w[0], w[1]);
                let tol = 1e-26 * ka.max(kb) * 10.0;
                cx.sm.count("dd_routing_pairs");
                let rel = |a: Dd, b: Dd| absd(sub(a, b)) / a.hi.abs().max(b.hi.abs()).max(1e-300);
                if !(rel(ua, ub) <= tol && rel(va, vb) <= tol && rel(ja, jb) <= tol * 10.0) {
                    cx.viol2("C09", format!("u, v, jacobian depend on the routing beyond the precision of the user's type: routings {} and {} differ by {:e}, {:e}, {:e} (relative)", ra, rb, rel(ua, ub), rel(va, vb), rel(ja, jb)), rb, &xd, json!({"tol": tol}));
                }
            }
        }
        // ---- range of the user's type: the same call with masses and shifts scaled by 2^k (k = +-600: their squares leave the f64
        // range) and the wide-range scalar must return the f64 results scaled by the matching power of two - u, L, its
        // factorisation, lambda and the Gaussians unchanged, u_l, L^-1 u and the momenta by 2^k, v by 2^(2k), bit for bit
        // (everything between the Feynman parameters and these values is +, -, *, / and sqrt); the jacobian by 2^(-2k dod)
        for k2 in 0..2usize {
            use crate::xf::Xf;
            let pt = make_point(&line, dim, None, &mut rng, 0);
            let ri = k2 % samplers.len();
            let (_sig, p) = &line.routings[ri];
            let edf: EdgeData<f64> = (0..e).map(|i| (if line.m[i] != 0.0 { Some(line.m[i]) } else { None }, p[i].clone())).collect();
            let of = samplers[ri].sample_f64(&pt.x, &edf, &Settings::new(None, false, true));
            let fo = match (&of.outcome, of.obs.as_ref()) { (Outcome::Ok, Some(o)) if o.meta.is_some() => o, _ => continue };
            let fm = fo.meta.as_ref().unwrap();
            if !(fo.u.is_normal() && fo.v.is_normal() && fo.v > 0.0 && fo.jacobian.is_normal()) { continue; }
            for &k in &[600i64, -600] {
                let edx: EdgeData<Xf> = (0..e).map(|i| (if line.m[i] != 0.0 { Some(Xf::scaled(line.m[i], k)) } else { None }, p[i].iter().map(|&c| Xf::scaled(c, k)).collect())).collect();
                let xx: Vec<Xf> = pt.x.iter().map(|&v| Xf::f(v)).collect();
                let ox = samplers[ri].sample_xf(&xx, &edx, &Settings::new(None, false, true));
                cx.sm.evaluations += 1;
                cx.sm.count("xf_samples");
                let inst = json!({"line": inst, "idx": idx, "routing": ri, "dd": true, "xf_k": k, "x": pt.x.iter().map(|v| hexf(*v)).collect::<Vec<_>>()});
                let xo = match (&ox.outcome, ox.obs.as_ref()) {
                    (Outcome::Ok, Some(o)) if o.meta.is_some() => o,
                    (other, _) => { cx.sm.violation("C19", format!("[wide-range scalar] kinematics scaled by 2^{}: outcome {} where the f64 call on the unscaled kinematics returns a sample", k, other.name()), inst, json!({})); continue; }
                };
                let xm = xo.meta.as_ref().unwrap();
                let same = |a: Xf, b: f64, kk: i64| { let w = Xf::scaled(b, kk); (a.m.is_nan() && w.m.is_nan()) || a == w };
                let mut bad: Vec<(&str, String)> = vec![];
                if !same(xo.u, fo.u, 0) { bad.push(("C08", "u changes with the scale of the kinematics".into())); }
                if !(0..l).all(|i| (0..l).all(|j| same(xm.l_matrix[i][j], fm.l_matrix[i][j], 0) && same(xm.inverse[i][j], fm.inverse[i][j], 0))) { bad.push(("C08", "L or its inverse changes with the scale of the kinematics".into())); }
                if !same(xo.v, fo.v, 2 * k) { bad.push(("C09", format!("v is not the f64 value scaled by 2^{} (got {:e} x 2^{}, f64 {:e})", 2 * k, xo.v.m, xo.v.e, fo.v))); }
                if !(0..l).all(|i| (0..d).all(|c| same(xm.u_vectors[i][c], fm.u_vectors[i][c], k) && same(xm.shift[i][c], fm.shift[i][c], k))) { bad.push(("C10", format!("u_l or L^-1 u is not the f64 value scaled by 2^{}", k))); }
                if !(0..l).all(|i| (0..d).all(|c| same(xo.loop_momenta[i][c], fo.loop_momenta[i][c], k))) { bad.push(("C10", format!("the loop momenta are not the f64 values scaled by 2^{}", k))); }
                if !(same(xm.lambda, fm.lambda, 0) && (0..l).all(|i| (0..d).all(|c| same(xm.q_vectors[i][c], fm.q_vectors[i][c], 0)))) { bad.push(("C13", "lambda or the Gaussian vectors change with the scale of the kinematics".into())); }
                // jacobian: log2 comparison
                let lj = xo.jacobian.m.abs().log2() + xo.jacobian.e as f64;
                let want = fo.jacobian.abs().log2() - 2.0 * k as f64 * samplers[ri].dod();
                if !(xo.jacobian.m > 0.0 && (lj - want).abs() <= 1e-9 * want.abs().max(1.0)) { bad.push(("C11", format!("log2 jacobian = {} instead of {} = log2(f64 jacobian) - 2 k dod", lj, want))); }
                for (prop, what) in bad {
                    cx.sm.violation(prop, format!("[wide-range scalar] kinematics scaled by 2^{}: {}", k, what), inst.clone(), json!({}));
                    cx.sm.violation("C19", format!("[wide-range scalar] the range of the user's type is not preserved (kinematics scaled by 2^{}): {}", k, what), inst.clone(), json!({}));
                }
            }
        }
        // ---- C06 in the user's type: coordinates 1e-24 away from the exact boundaries of the first step; next to 1
        if e >= 2 {
            let full = (1usize << e) - 1;
            // exactness scope for the user's type: the constants the first step reads from the table - J(g), J(g\e), omega(g\e) -
            // are stored exactly (the stored double IS the specification's rational).  The probabilities are then formed in the
            // user's type with an error of ~1e-31, so the specification's rational boundaries decide coordinates 1e-24 away.
            let q = |n: i64, dn: i64| BigRational::new(n.into(), dn.max(1).into());
            let stored_exact = |v: f64, n: i64, dn: i64| dn != 0 && v.is_finite() && BigRational::from_float(v).map(|r| r == q(n, dn)).unwrap_or(false);
            let exact_scope = match table.as_ref() {
                Some(tbl) => stored_exact(tbl[full].0, line.j_exact[full].0, line.j_exact[full].1)
                    && (0..e).all(|b| { let sb = full ^ (1 << b); stored_exact(tbl[sb].0, line.j_exact[sb].0, line.j_exact[sb].1) && stored_exact(tbl[sb].1, line.w_units[sb], line.g.wd) }),
                None => false,
            };
            let mut cands: Vec<(Dd, usize, &'static str)> = vec![(Dd::new(1.0, -1e-25), e - 1, "1 - 1e-25")];
            if exact_scope {
                cx.sm.count("dd_exact_scopes");
                for k in 0..e - 1 {
                    let (bn, bd) = line.cum_exact[full][k];
                    if bd == 0 { continue; }
                    let b = Dd::from_rational(&q(bn, bd));
                    let prev = if k == 0 { 0.0 } else { line.cum[full][k - 1].unwrap_or(0.0) };
                    let next = line.cum[full][k + 1].unwrap_or(1.0);
                    if b.hi - prev > 1e-12 { cands.push((Dd::add_dd(b, Dd::f(-1e-24)), k, "boundary - 1e-24")); }
                    if next - b.hi > 1e-12 && b.hi < 1.0 { cands.push((Dd::add_dd(b, Dd::f(1e-24)), k + 1, "boundary + 1e-24")); }
                }
            }
            let (_sig, p) = &line.routings[0];
            let ed: EdgeData<Dd> = (0..e).map(|i| (Some(Dd::f(line.m[i])), p[i].iter().map(|&c| Dd::f(c)).collect())).collect();
            for (u0, pos, what) in cands {
                let mut xd: Vec<Dd> = (0..dim).map(|_| Dd::f(rng.gen_range(0.2..0.8))).collect();
                xd[0] = u0;
                let out = samplers[0].sample_dd(&xd, &ed, &Settings::new(None, true, false));
                cx.sm.evaluations += 1;
                cx.sm.count("dd_boundary_points");
                match &out.outcome {
                    Outcome::Panic(m) => { cx.viol2("C06", format!("edge selection panicked at u = {} with the double-double scalar: {}", what, m), 0, &xd, json!({})); }
                    Outcome::Ok => {
                        if let Some(xun) = getlog(&out.log, "momtrop_feynman_parameter_no_rescaling").map(vf) {
                            if let Some(ord) = order_of(&xun) {
                                if ord[0] != pos {
                                    cx.viol2("C06", format!("at u = {} (exact boundaries, user's type) edge {} was removed first, the specification removes edge {}", what, ord[0], pos), 0, &xd, json!({"cum": line.cum_exact[full]}));
                                }
                            }
                        }
                    }
                    _ => {}
                }
            }
        }
    }
    sm
}
