//! record-api (mode V, C17 / C18): executes API histories on real objects - build, clone, serialise,
//! deserialise, sample sequentially and from many threads, through generate_sample_from_rng, in a second
//! process, and with momtrop compiled without its `log` feature - and records them for Trace_Api.tla.

use crate::apicommon::*;
use crate::dynsampler::*;
use crate::inst::*;
use rand::Rng;
use serde_json::{json, Value};
use std::collections::HashMap;
use std::sync::{Arc, Mutex};

pub struct ApiOpts {
    pub seed: u64,
    pub origins: usize,
    pub args: usize,
    pub threads: usize,
    pub calls_per_thread: usize,
    pub nolog_bin: Option<String>,
    pub input: String,
}

fn origs_len(objects: &[(i64, usize, Arc<Box<dyn DynSampler>>)]) -> usize {
    objects.iter().map(|o| o.1 + 1).max().unwrap_or(0)
}
fn spec_of(o: &Origin) -> GraphSpec {
    GraphSpec { edges: o.edges.clone(), mass: o.mass.clone(), weights: o.weights.clone(), ext: o.ext.clone() }
}
fn edge_data(o: &Origin) -> EdgeData<f64> {
    (0..o.edges.len()).map(|e| (Some(o.m[e]), o.p[e].clone())).collect()
}
pub fn digest_of(out: &SampleOut<f64>) -> u64 {
    let mut nums = vec![];
    if let Some(o) = &out.obs {
        nums.extend([o.u_trop, o.v_trop, o.u, o.v, o.jacobian]);
        for k in &o.loop_momenta { nums.extend(k.iter().copied()); }
    }
    digest_bits(out.outcome.name(), &nums)
}

struct Recorder {
    events: Vec<Value>,
    digests: HashMap<u64, i64>,
}
impl Recorder {
    fn intern(&mut self, d: u64) -> i64 {
        let n = self.digests.len() as i64 + 1;
        *self.digests.entry(d).or_insert(n)
    }
}

/// child mode: build every origin and sample every argument in THIS process (different hash seeds), print digests
pub fn child(lines: &[Value], max: usize, nargs: usize) {
    for (oi, o) in origins_with_twins(lines, max).iter().enumerate() {
        if let BuildOut::Ok(s) = build(&spec_of(o), o.sig.clone(), o.d) {
            if s.to_json_string().contains("null") { continue; }
            println!("T {} {:016x}", oi, digest_bits(&s.to_json_string(), &[]));
            for a in 0..nargs {
                let (x, stab, _) = arg_for(&o.key, s.dim(), a);
                let out = s.sample_f64(&x, &edge_data(o), &Settings::new(stab, false, false));
                println!("S {} {} {:016x}", oi, a, digest_of(&out));
            }
        }
    }
}

pub fn run(lines: &[Value], opts: &ApiOpts, trace_path: &str) -> Summary {
    use std::io::Write;
    let mut sm = Summary::default();
    let rec = Arc::new(Mutex::new(Recorder { events: vec![], digests: HashMap::new() }));
    let origins = origins_with_twins(lines, opts.origins);
    let mut objects: Vec<(i64, usize, Arc<Box<dyn DynSampler>>)> = vec![]; // (sid, origin index, object)
    let mut next_sid = 1i64;
    let mut next_blob = 1i64;
    let mut rng = rng_for(opts.seed, 31337);
    let query = |rec: &Arc<Mutex<Recorder>>, sid: i64, s: &dyn DynSampler| {
        let mut r = rec.lock().unwrap();
        let q = [("dim", digest_bits("dim", &[s.dim() as f64])), ("dod", digest_bits("dod", &[s.dod()])),
                 ("table", digest_bits(&s.to_json()["table"].to_string(), &[])), ("weights", digest_bits("w", &s.weights())),
                 ("nedges", digest_bits("e", &[s.num_edges() as f64]))];
        for (what, d) in q { let res = r.intern(d); r.events.push(json!({"ev": "Query", "sid": sid, "what": what, "res": res})); }
    };
    for (oi, o) in origins.iter().enumerate() {
        let s = match build(&spec_of(o), o.sig.clone(), o.d) { BuildOut::Ok(s) => s, _ => { sm.count("origin_not_built"); continue; } };
        // JSON cannot hold non-finite doubles (serde_json writes null): such a table is outside "a format that preserves f64 exactly"
        if s.to_json_string().contains("null") { sm.count("origin_with_nonfinite_table_skipped"); continue; }
        let sid = next_sid; next_sid += 1;
        rec.lock().unwrap().events.push(json!({"ev": "Build", "sid": sid, "origin": oi as i64 + 1}));
        query(&rec, sid, s.as_ref());
        // a second, independent build of the same origin (C05 determinism seen through the API model)
        if let BuildOut::Ok(s2) = build(&spec_of(o), o.sig.clone(), o.d) {
            let sid2 = next_sid; next_sid += 1;
            rec.lock().unwrap().events.push(json!({"ev": "Build", "sid": sid2, "origin": oi as i64 + 1}));
            query(&rec, sid2, s2.as_ref());
            objects.push((sid2, oi, Arc::new(s2)));
        }
        // clone
        let c = s.clone_box();
        let csid = next_sid; next_sid += 1;
        rec.lock().unwrap().events.push(json!({"ev": "Clone", "sid": csid, "from": sid}));
        query(&rec, csid, c.as_ref());
        objects.push((csid, oi, Arc::new(c)));
        // serialise: JSON text and serde_json::Value; deserialise each; re-serialise and compare
        for mode in 0..2 {
            let blob = next_blob; next_blob += 1;
            rec.lock().unwrap().events.push(json!({"ev": "Ser", "sid": sid, "blob": blob}));
            let de = if mode == 0 { s.from_json_str(&s.to_json_string()) } else { s.from_json_value(s.to_json()) };
            match de {
                Ok(d) => {
                    let dsid = next_sid; next_sid += 1;
                    rec.lock().unwrap().events.push(json!({"ev": "De", "blob": blob, "sid": dsid}));
                    query(&rec, dsid, d.as_ref());
                    if d.to_json_string() != s.to_json_string() {
                        sm.violation("C18", "re-serialisation of a deserialised sampler differs from the original serialisation".into(), json!({"origin": o.key}), json!({}));
                    }
                    objects.push((dsid, oi, Arc::new(d)));
                }
                Err(e) => sm.violation("C18", format!("deserialisation failed: {}", e), json!({"origin": o.key}), json!({})),
            }
        }
        objects.push((sid, oi, Arc::new(s)));
        sm.nontrivial += 1;
    }
    // ---- sequential phase: every object x every argument x settings variants, x-space and rng entry points
    for (sid, oi, s) in &objects {
        let o = &origins[*oi];
        for a in 0..opts.args {
            let (x, stab, seed) = arg_for(&o.key, s.dim(), a);
            for (meta, debug) in [(false, false), (true, false), (false, true), (true, true)] {
                if rng.gen_bool(0.5) && (meta || debug) { continue; }
                rec.lock().unwrap().events.push(json!({"ev": "Begin", "t": 0, "sid": sid, "arg": a as i64 + 1, "meta": meta, "debug": debug, "via": "x"}));
                let out = s.sample_f64(&x, &edge_data(o), &Settings::new(stab, debug, meta));
                let mut r = rec.lock().unwrap();
                let res = r.intern(digest_of(&out));
                r.events.push(json!({"ev": "End", "t": 0, "res": res, "outcome": out.outcome.name()}));
                sm.evaluations += 1;
            }
            if a % 2 == 0 {
                rec.lock().unwrap().events.push(json!({"ev": "Begin", "t": 0, "sid": sid, "arg": a as i64 + 1, "meta": false, "debug": false, "via": "rng"}));
                let (out, draws, xs, _after) = s.sample_rng(&edge_data(o), &Settings::new(stab, false, false), seed);
                let same_draws = xs.len() == x.len() && xs.iter().zip(&x).all(|(p, q)| p.to_bits() == q.to_bits());
                let mut r = rec.lock().unwrap();
                let res = r.intern(digest_of(&out));
                r.events.push(json!({"ev": "End", "t": 0, "res": res, "outcome": out.outcome.name()}));
                r.events.push(json!({"ev": "Rng", "t": 0, "draws": draws as i64, "dim": s.dim() as i64, "same_numbers": same_draws}));
                sm.evaluations += 1;
                sm.count("rng_calls");
            }
        }
    }
    // ---- slot-reuse phase: samplers built one after the other into the SAME variable / heap slot on this thread
    // (an address is not an identity: whatever is remembered about the previous occupant must not be used)
    {
        #[allow(unused_assignments)]
        let mut slot: Option<Box<dyn DynSampler>> = None;
        let idxs: Vec<usize> = (0..origs_len(&objects)).collect();
        for round in 0..2 {
            for &oi in idxs.iter() {
                if (oi + round) % 2 == 1 { continue; }
                let o = &origins[oi];
                slot = None; // drop the previous occupant first so that the allocator can hand out the same slot
                let _ = &slot;
                if let BuildOut::Ok(b) = build(&spec_of(o), o.sig.clone(), o.d) {
                    if b.to_json_string().contains("null") { continue; }
                    let sid = next_sid; next_sid += 1;
                    rec.lock().unwrap().events.push(json!({"ev": "Build", "sid": sid, "origin": oi as i64 + 1, "proc": "slot-reuse"}));
                    query(&rec, sid, b.as_ref());
                    let (x, stab, seed) = arg_for(&o.key, b.dim().min(4096), 0);
                    rec.lock().unwrap().events.push(json!({"ev": "Begin", "t": 0, "sid": sid, "arg": 1, "meta": false, "debug": false, "via": "rng"}));
                    let (out, draws, xs, _) = b.sample_rng(&edge_data(o), &Settings::new(stab, false, false), seed);
                    let same = xs.len() == x.len() && xs.iter().zip(&x).all(|(p, q)| p.to_bits() == q.to_bits());
                    let mut r = rec.lock().unwrap();
                    let res = r.intern(digest_of(&out));
                    r.events.push(json!({"ev": "End", "t": 0, "res": res, "outcome": out.outcome.name()}));
                    r.events.push(json!({"ev": "Rng", "t": 0, "draws": draws as i64, "dim": b.dim() as i64, "same_numbers": same}));
                    drop(r);
                    sm.evaluations += 1;
                    sm.count("slot_reuse_builds");
                    slot = Some(b);
                }
            }
        }
    }
    // ---- concurrent phase: threads share the objects
    let objs = Arc::new(objects);
    let origs = Arc::new(origins);
    let mut handles = vec![];
    for t in 1..=opts.threads {
        let (rec, objs, origs) = (rec.clone(), objs.clone(), origs.clone());
        let (nargs, calls, seed) = (opts.args, opts.calls_per_thread, opts.seed);
        handles.push(std::thread::spawn(move || {
            let mut rng = rng_for(seed, 5000 + t as u64);
            for _ in 0..calls {
                let (sid, oi, s) = &objs[rng.gen_range(0..objs.len())];
                let o = &origs[*oi];
                let a = rng.gen_range(0..nargs);
                let (x, stab, _) = arg_for(&o.key, s.dim(), a);
                let (meta, debug) = (rng.gen_bool(0.3), rng.gen_bool(0.1));
                rec.lock().unwrap().events.push(json!({"ev": "Begin", "t": t as i64, "sid": sid, "arg": a as i64 + 1, "meta": meta, "debug": debug, "via": "x"}));
                let out = s.sample_f64(&x, &edge_data(o), &Settings::new(stab, debug, meta));
                let d = digest_of(&out);
                let mut r = rec.lock().unwrap();
                let res = r.intern(d);
                r.events.push(json!({"ev": "End", "t": t as i64, "res": res, "outcome": out.outcome.name()}));
            }
        }));
    }
    for h in handles { h.join().unwrap(); }
    sm.add("concurrent_calls", (opts.threads * opts.calls_per_thread) as i64);
    sm.evaluations += (opts.threads * opts.calls_per_thread) as u64;
    // ---- other processes: this binary again (fresh hash seeds) and momtrop without `log`
    let mut other = |tag: &str, cmd: &mut std::process::Command, sm: &mut Summary| {
        let outp = cmd.output();
        let outp = match outp { Ok(o) if o.status.success() => o, _ => { sm.notes.push(format!("process {} could not be run", tag)); return; } };
        let txt = String::from_utf8_lossy(&outp.stdout).to_string();
        let mut sid_of: HashMap<usize, i64> = HashMap::new();
        let mut r = rec.lock().unwrap();
        for line in txt.lines() {
            let f: Vec<&str> = line.split_whitespace().collect();
            if f.len() < 3 { continue; }
            let parse = |s: &str| u64::from_str_radix(s, 16).unwrap_or(0);
            match f[0] {
                "T" => { // table digest of origin f[1]
                    let oi: usize = f[1].parse().unwrap();
                    let sid = next_sid; next_sid += 1; sid_of.insert(oi, sid);
                    r.events.push(json!({"ev": "Build", "sid": sid, "origin": oi as i64 + 1, "proc": tag}));
                }
                "S" => {
                    let oi: usize = f[1].parse().unwrap(); let a: i64 = f[2].parse().unwrap();
                    if let Some(&sid) = sid_of.get(&oi) {
                        let res = r.intern(parse(f[3]));
                        r.events.push(json!({"ev": "Begin", "t": 99, "sid": sid, "arg": a + 1, "meta": false, "debug": false, "via": tag}));
                        r.events.push(json!({"ev": "End", "t": 99, "res": res, "outcome": "other-process"}));
                        sm.evaluations += 1;
                    }
                }
                _ => { // nolog format: oi a meta debug digest
                    if f.len() == 5 {
                        let oi: usize = f[0].parse().unwrap(); let a: i64 = f[1].parse().unwrap();
                        let sid = *sid_of.entry(oi).or_insert_with(|| { let s = next_sid; next_sid += 1; s });
                        if !r.events.iter().any(|e| e["ev"] == "Build" && e["sid"] == sid) {
                            r.events.push(json!({"ev": "Build", "sid": sid, "origin": oi as i64 + 1, "proc": tag}));
                        }
                        let res = r.intern(parse(f[4]));
                        r.events.push(json!({"ev": "Begin", "t": 98, "sid": sid, "arg": a + 1, "meta": f[2] == "1", "debug": f[3] == "1", "via": tag}));
                        r.events.push(json!({"ev": "End", "t": 98, "res": res, "outcome": "nolog"}));
                        sm.evaluations += 1;
                    }
                }
            }
        }
        sm.count(&format!("process_{}", tag));
    };
    let me = std::env::current_exe().unwrap();
    other("second-process", std::process::Command::new(&me).args(["api-child", "--in", &opts.input, "--opt", &format!("origins={}", opts.origins), "--opt", &format!("args={}", opts.args)]), &mut sm);
    if let Some(nb) = &opts.nolog_bin {
        other("nolog", std::process::Command::new(nb).args([&opts.input, &opts.origins.to_string(), &opts.args.to_string()]), &mut sm);
    }
    let r = rec.lock().unwrap();
    let mut f = std::io::BufWriter::new(std::fs::File::create(trace_path).unwrap());
    for e in &r.events { writeln!(f, "{}", e).unwrap(); }
    sm.events = r.events.len() as u64;
    sm.add("distinct_results", r.digests.len() as i64);
    for e in r.events.iter().filter(|e| e["ev"] == "End").take(1) { sm.sample(e.clone()); }
    for e in r.events.iter().take(3) { sm.sample(e.clone()); }
    sm
}
