//! mtnolog: samples the given origins / arguments with momtrop built WITHOUT the `log` feature and prints
//! one line per call: origin index, argument index, settings, result digest (hex).
#[path = "../../harness/src/apicommon.rs"]
mod apicommon;
use apicommon::*;
use momtrop::vector::Vector;
use momtrop::{Edge, Graph, TropicalSamplingSettings};
use std::io::BufRead;

fn run<const D: usize>(o: &Origin, oi: usize, nargs: usize) {
    let g = Graph {
        edges: o.edges.iter().zip(&o.mass).zip(&o.weights).map(|((&v, &m), &w)| Edge { vertices: v, is_massive: m, weight: w }).collect(),
        externals: o.ext.clone(),
    };
    let s = match g.build_sampler::<D>(o.sig.clone()) { Ok(s) => s, Err(_) => { println!("{} build-err", oi); return; } };
    let dim = s.get_dimension();
    for a in 0..nargs {
        let (x, stab, _seed) = arg_for(&o.key, dim, a);
        for (meta, debug) in [(false, false), (true, false)] {
            let settings = TropicalSamplingSettings { matrix_stability_test: stab, print_debug_info: debug, return_metadata: meta };
            let ed: Vec<(Option<f64>, Vector<f64, D>)> = (0..o.edges.len()).map(|e| (Some(o.m[e]), Vector::from_vec(o.p[e].clone()))).collect();
            let r = std::panic::catch_unwind(std::panic::AssertUnwindSafe(|| s.generate_sample_from_x_space_point(&x, ed, &settings)));
            let (name, nums): (String, Vec<f64>) = match r {
                Ok(Ok(t)) => {
                    let mut n = vec![t.u_trop, t.v_trop, t.u, t.v, t.jacobian];
                    for k in &t.loop_momenta { n.extend(k.get_elements()); }
                    ("Ok".into(), n)
                }
                Ok(Err(e)) => {
                    let d = format!("{:?}", e);
                    (if d.contains("ZeroDet") { "ErrZeroDet" } else if d.contains("Unstable") { "ErrUnstable" } else { "ErrGamma" }.to_string(), vec![])
                }
                Err(_) => ("Panic".into(), vec![]),
            };
            println!("{} {} {} {} {:016x}", oi, a, meta as u8, debug as u8, digest_bits(&name, &nums));
        }
    }
}

fn main() {
    std::panic::set_hook(Box::new(|_| {}));
    let args: Vec<String> = std::env::args().collect();
    let f = std::fs::File::open(&args[1]).expect("input");
    let max: usize = args[2].parse().unwrap();
    let nargs: usize = args[3].parse().unwrap();
    let lines: Vec<serde_json::Value> = std::io::BufReader::new(f).lines().map(|l| serde_json::from_str(&l.unwrap()).unwrap()).collect();
    for (oi, o) in origins_with_twins(&lines, max).iter().enumerate() {
        match o.d { 1 => run::<1>(o, oi, nargs), 2 => run::<2>(o, oi, nargs), 3 => run::<3>(o, oi, nargs), 4 => run::<4>(o, oi, nargs),
                    5 => run::<5>(o, oi, nargs), 6 => run::<6>(o, oi, nargs), _ => {} }
    }
}
